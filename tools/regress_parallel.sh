#!/bin/bash
# Like regress_mutants.sh, but N probes at a time (default 3), each with fewer workers.
# usage: regress_parallel.sh [N]   -> writes seeded/REGRESSION.log (sorted), exit 1 if any change is no longer detected
cd "$(dirname "$0")/.."
N=${1:-3}
one() {
  f=$1
  case "$f" in
    seeded/*) id=$(basename "$(dirname "$f")"); prop=${id%%-*};;
    *) id=$(basename "$f" .diff); prop=$(echo "${id%%_*}" | tr a-z A-Z);;
  esac
  r=$(BUDGET=${BUDGET:-30} VERIF_WORKERS=${VERIF_WORKERS:-5} tools/probe.sh "$f" "$prop" 2>&1 | tail -1)
  echo "$id: $r"
}
export -f one
ls seeded/*/patch.diff probes/*.diff | xargs -P "$N" -I{} bash -c 'one {}' > /tmp/regress_par.$$ 2>&1
sort /tmp/regress_par.$$ > seeded/REGRESSION.log; rm -f /tmp/regress_par.$$
if grep -v "exit=1" seeded/REGRESSION.log; then echo "^^^ NOT DETECTED"; exit 1; fi
echo "all $(wc -l < seeded/REGRESSION.log) changes detected"
