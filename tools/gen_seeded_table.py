#!/usr/bin/env python3
# Regenerates the seeded-change table of DESIGN.md section 12.5 from seeded/*/meta.json.
import json, glob, os, re
root = os.path.dirname(os.path.dirname(os.path.abspath(__file__)))
def key(p):
    m = re.match(r'C(\d+)-m(\d+)', os.path.basename(os.path.dirname(p)))
    return (int(m.group(1)), int(m.group(2)))
rows = []
stats = {}
for p in sorted(glob.glob(os.path.join(root, 'seeded', '*', 'meta.json')), key=key):
    sid = os.path.basename(os.path.dirname(p))
    m = json.load(open(p))
    det = m.get('detected_by') or {}
    by = ', '.join(k for k, v in det.items() if v == 'detected')
    miss = ', '.join(k for k, v in det.items() if v != 'detected')
    if miss:
        by += ' (not: %s)' % miss
    note = m.get('detection_note', 'first run')
    rows.append('| %s | %s | %s | %s |' % (sid, m.get('needs_to_manifest', '').replace('|', '/'), by or '-', note.replace('|', '/')))
    w = re.match(r'wave (\d)', note)
    wave = int(w.group(1)) if w else (1 if key(p)[1] <= 2 else 2)
    first = ('first run' in note) and ('missed' not in note)
    st = stats.setdefault(wave, [0, 0])
    st[0] += 1
    st[1] += 0 if first else 1
d = open(os.path.join(root, 'DESIGN.md')).read()
head = '| change | what it needs to show up | caught by | how |\n|---|---|---|---|\n'
i = d.index(head) + len(head)
j = d.index('\n\n', i)
d = d[:i] + '\n'.join(rows) + d[j:]
open(os.path.join(root, 'DESIGN.md'), 'w').write(d)
print(len(rows), 'rows;', {w: '%d changes, %d missed at first' % tuple(v) for w, v in sorted(stats.items())})
