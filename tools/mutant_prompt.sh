#!/bin/bash
# usage: mutant_prompt.sh <PROPERTY-ID> <worktree-dir>   -> prints the prompt for a seeding sub-agent
ID=$1; WT=$2
cat <<P
You are helping test a verification tool by seeding a realistic bug into a Go library. You work ONLY inside the git worktree $WT (a checkout of the Go module github.com/bbockelm/cedar, HTCondor's CEDAR wire protocol in Go). Do not read or write anything under /verif or /repo. Do not commit and do NOT use git stash (the stash is shared by all worktrees of the repository and other agents are working in sibling worktrees): to switch a change off and on, save it with git diff into a file, revert with git checkout -- . and re-apply it with git apply.

The library is supposed to satisfy this property:

$(cat /tmp/prop_$ID.txt)

Task: produce ${NCH:-TWO} different, independent source changes to the library (non-test .go files in $WT) that each BREAK this property while the module still compiles and its existing test suite still passes. Each change should look like a plausible regression or refactoring slip a maintainer could make (an off-by-one, a dropped check, a wrong field, a reordered step, a condition inverted in one branch, state not reset, ...), and it should need something SPECIFIC to manifest: a particular interleaving, a fault or crash at a particular point, a multi-step sequence of operations, an unusual input or size, or two cooperating sites that each look fine alone - NOT something ordinary use would expose at once. Do not add obviously malicious code, do not touch *_test.go files, keep each change small (a few lines).

${EXTRA:-}

For each change N (1, 2, ...):
 1. Start from a clean tree (git -C $WT checkout -- . && git -C $WT clean -fdq -e out) and apply only that change.
 2. Check it compiles and the existing suite passes: cd $WT && GOFLAGS=-mod=mod GOPROXY=off go build ./... && GOFLAGS=-mod=mod GOPROXY=off go test -vet=off -count=1 ./... 2>&1 | tail -30   (takes ~40 s; network is unavailable; a few packages have no tests). If a test fails, choose a different change.
 3. Write a demonstration: a NEW Go test file (e.g. $WT/<pkg>/zz_demoN_test.go, using only the standard library and the module's own packages) that FAILS with the change applied and PASSES on the clean tree. Run it both ways to confirm (go test -vet=off -count=1 -run <Name> ./<pkg>/).
 4. Save into $WT/out/: changeN.diff (git diff of the library change only, without the demo file), demoN_test.go (copy of the demo test, with a first-line comment saying which package directory it belongs in), notesN.md (what the change is, why it breaks the property, what specific condition it needs to manifest, and the exact commands you ran with their outcomes).
 If you save _test.go demo copies under out/, also create out/go.mod containing just "module out" so that go test ./... ignores that directory. Finally restore the tree to clean (git -C $WT checkout -- . ; remove demo files from package dirs) leaving only $WT/out/.

Report back briefly: for each change, one paragraph (what, where, what it needs to manifest) and whether all four confirmations (builds, suite passes, demo fails with change, demo passes without) succeeded.
P
