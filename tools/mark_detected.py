#!/usr/bin/env python3
# usage: mark_detected.py <seeded-id> <check-id>:<exit>[,...] [note]
import json,sys
d='/verif/seeded/%s/meta.json'%sys.argv[1]
m=json.load(open(d))
m['detected_by']={kv.split(':')[0]:('detected' if kv.split(':')[1]=='1' else 'missed') for kv in sys.argv[2].split(',')}
if len(sys.argv)>3: m['detection_note']=sys.argv[3]
json.dump(m,open(d,'w'),indent=1)
