#!/bin/bash
# usage: confirm_mutant.sh <agent-out-dir> <N> <seeded-id> <PROPERTY> "<needs>"
# Confirms a sub-agent's seeded change independently in a scratch worktree (builds, baseline suite passes,
# demo fails with the change and passes without) and stores it under /verif/seeded/<seeded-id>/.
set -u
OUT=$1; N=$2; SID=$3; PROP=$4; NEEDS=${5:-}
WT=/tmp/wt_confirm_$$
git -C /repo worktree add --detach "$WT" HEAD -q || exit 2
cleanup() { git -C /repo worktree remove --force "$WT" 2>/dev/null; }
trap cleanup EXIT
export GOFLAGS=-mod=mod GOPROXY=off
git -C "$WT" apply "$OUT/change$N.diff" || { echo "FAIL: patch does not apply"; exit 1; }
(cd "$WT" && go build ./...) || { echo "FAIL: does not build"; exit 1; }
/verif/tools/baseline.sh "$WT" | tail -1 | grep -q "baseline_tests_not_passing=0" || { echo "FAIL: baseline suite does not pass with the change"; exit 1; }
PKG=$(head -3 "$OUT/demo${N}_test.go" | grep -o -E '(stream|message|security|server|client|ccb|addresses|version|commands|watch)(/[a-z]+)?' | head -1)
[ -z "$PKG" ] && PKG=$(grep -m1 '^package ' "$OUT/demo${N}_test.go" | awk '{print $2}' | sed 's/_test$//')
cp "$OUT/demo${N}_test.go" "$WT/$PKG/zz_demo_test.go"
NAMES=$(grep -o -E '^func (Test[A-Za-z0-9_]+)' "$WT/$PKG/zz_demo_test.go" | awk '{print $2}' | paste -sd'|')
(cd "$WT" && timeout 600 go test -vet=off -count=1 -run "^($NAMES)\$" ./$PKG/ >/tmp/confirm_with.log 2>&1); RC_WITH=$?
git -C "$WT" apply -R "$OUT/change$N.diff"
(cd "$WT" && timeout 600 go test -vet=off -count=1 -run "^($NAMES)\$" ./$PKG/ >/tmp/confirm_without.log 2>&1); RC_WITHOUT=$?
echo "demo pkg=$PKG tests=$NAMES with-change rc=$RC_WITH without rc=$RC_WITHOUT"
if [ $RC_WITH -eq 0 ] || [ $RC_WITHOUT -ne 0 ]; then echo "FAIL: demo does not discriminate"; tail -5 /tmp/confirm_with.log /tmp/confirm_without.log; exit 1; fi
D=/verif/seeded/$SID; mkdir -p "$D"
cp "$OUT/change$N.diff" "$D/patch.diff"; cp "$OUT/demo${N}_test.go" "$D/demo_test.go"; cp "$OUT/notes$N.md" "$D/notes.md" 2>/dev/null
python3 - "$D" "$PROP" "$PKG" "$NAMES" "$NEEDS" <<'PY'
import json,sys,subprocess
d,prop,pkg,names,needs=sys.argv[1:6]
json.dump({"property":prop,"breaks":prop,"needs_to_manifest":needs,"demo_package":pkg,"demo_tests":names.split('|'),
 "confirmed":{"applies_to":subprocess.run(["git","-C","/repo","rev-parse","--short","HEAD"],capture_output=True,text=True).stdout.strip(),
   "builds":True,"baseline_636_pass_with_change":True,"demo_fails_with_change":True,"demo_passes_without_change":True,
   "commands":["git apply patch.diff; go build ./...","/verif/tools/baseline.sh <worktree>","go test -vet=off -count=1 -run '^(%s)$' ./%s/ (with and without the change)"%(names,pkg)]},
 "detected_by":None},open(d+"/meta.json","w"),indent=1)
PY
echo "OK stored in $D"
