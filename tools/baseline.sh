#!/bin/bash
# Runs the repository's pinned test suite with the verif guard OFF (no build tag)
# and prints pass/fail counts compared with /root/.vp/BASELINE.json.
# usage: baseline.sh [repo-dir]
REPO=${1:-/repo}
export GOFLAGS=-mod=mod GOPROXY=off; unset GOSUMDB GOTOOLCHAIN
OUT=$(mktemp)
(cd "$REPO" && go test -mod=mod -json -vet=off -count=1 -timeout 25m ./... > "$OUT" 2>&1)
python3 - "$OUT" <<'PY'
import json,sys
res={}
for line in open(sys.argv[1]):
    try: e=json.loads(line)
    except Exception: continue
    if e.get('Test') and e.get('Action') in('pass','fail','skip'):
        res[e['Package']+'::'+e['Test']]=e['Action']
base=set(json.load(open('/root/.vp/BASELINE.json'))['stable_pass'])
passed={k for k,v in res.items() if v=='pass'}
missing=sorted(base-passed)
print(f"baseline={len(base)} passed_now={len(passed)} baseline_tests_not_passing={len(missing)}")
for m in missing[:40]: print("  NOT-PASSING", m, res.get(m))
sys.exit(1 if missing else 0)
PY
rc=$?
rm -f "$OUT"
exit $rc
