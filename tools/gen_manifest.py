#!/usr/bin/env python3
"""Regenerates /verif/MANIFEST.json from checks_config.py (single source of truth)."""
import json, os, sys
ROOT = os.path.dirname(os.path.dirname(os.path.abspath(__file__)))
sys.path.insert(0, ROOT)
from checks_config import CHECKS, NOT_APPLICABLE, HOOK_COMMITS  # noqa

props = [json.loads(l)["id"] for l in open(os.path.join(ROOT, "properties.jsonl"))]
checks = []
for pid in props:
    if pid not in CHECKS:
        continue
    c = CHECKS[pid]
    checks.append({
        "property_id": pid,
        "quick_cmd": "./vcheck run %s --tier quick" % pid,
        "thorough_cmd": "./vcheck run %s --tier thorough" % pid,
        "evidence_file": "/verif/evidence/%s.json" % pid,
        "replay_cmd_template": "./vcheck replay {path}",
        "engine": "cedarsim",
        "level_claimed": {"category": c["level"], "text": c["level_text"], "design_ref": "DESIGN.md section 6, " + pid},
        "level_note": c["level_note"],
        "technique": c["technique"],
    })
na = []
for pid in props:
    if pid in CHECKS:
        continue
    na.append({"property_id": pid, "reason": NOT_APPLICABLE.get(pid, "check not built yet (planned in DESIGN.md section 6); not claimed")})
m = {
    "version": 1,
    "setup_cmd": "./setup.sh",
    "hooks": {
        "guard": "verif",
        "enable": "go build tag: the checks build /repo with `-tags verif` (go1.26.8 test -c -tags verif ...)",
        "baseline_off_cmd": "/verif/tools/baseline.sh",
        "source_commits": HOOK_COMMITS,
        "add_only": True,
    },
    "engines": [{
        "name": "cedarsim",
        "path": "/verif/sim",
        "serves_properties": [c["property_id"] for c in checks],
        "kind_free_text": "deterministic simulation with fault injection: real cedar code for every party runs inside one testing/synctest bubble under a seeded cooperative scheduler (kernel), simulated TCP with faults and an on-path frame filter (simnet), seeded crypto/rand, scripted deviating peers (puppet) and independent reference codecs (refcodec) as oracles; one seed = one replayable run; violations are tape-minimised and replayed in a fresh process",
    }],
    "checks": checks,
    "not_applicable": na,
    "notes": "Runner: /verif/vcheck (python3) builds the scenario test binary from /repo's working tree on every invocation, fans out to 16 worker processes (GOMAXPROCS=1 each), merges results, minimises and replays violations, writes evidence. Known findings: /verif/known_findings.json.",
}
json.dump(m, open(os.path.join(ROOT, "MANIFEST.json"), "w"), indent=1)
print("MANIFEST.json: %d checks, %d not applicable/unclaimed" % (len(checks), len(na)))
