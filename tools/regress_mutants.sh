#!/bin/bash
# Re-runs every seeded change (/verif/seeded/*) and hand-made probe (/verif/probes/*.diff)
# against the check of its property, in scratch worktrees of /repo HEAD. One line each;
# exit 1 if any is no longer detected or no longer applies.
cd "$(dirname "$0")/.."
rc=0
for d in seeded/*/; do
  id=$(basename "$d"); prop=${id%%-*}
  r=$(BUDGET=${BUDGET:-25} tools/probe.sh "$d/patch.diff" "$prop" 2>&1 | tail -1)
  echo "$id: $r"
  case "$r" in *"exit=1"*) ;; *) rc=1; echo "  ^^^ NOT DETECTED";; esac
done
for f in probes/*.diff; do
  n=$(basename "$f" .diff); prop=$(echo "${n%%_*}" | tr a-z A-Z)
  r=$(BUDGET=${BUDGET:-25} tools/probe.sh "$f" "$prop" 2>&1 | tail -1)
  echo "$n: $r"
  case "$r" in *"exit=1"*) ;; *) rc=1; echo "  ^^^ NOT DETECTED";; esac
done
exit $rc
