#!/bin/bash
# Runs every registered quick check against /repo (regenerates all evidence files). usage: run_all.sh [tier]
cd "$(dirname "$0")/.."
TIER=${1:-quick}
ids=${IDS:-$(python3 -c "import json;print(' '.join(c['property_id'] for c in json.load(open('MANIFEST.json'))['checks']))")}
rc_all=0
for id in $ids; do
  out=$(./vcheck run $id --tier $TIER 2>&1); rc=$?
  echo "$id rc=$rc $(echo "$out" | tail -1 | cut -c1-160)"
  [ $rc -ne 0 ] && { rc_all=1; echo "$out" | grep -E "VIOLATION|HARNESS" | head -5; }
done
exit $rc_all
