#!/bin/bash
# usage: probe.sh <patch.diff> <ID> [ID...]  — apply a patch to a scratch worktree of /repo HEAD and run the quick checks against it.
# Prints one line per check: <ID> exit=<code> (1 = detected). The worktree is removed afterwards.
set -u
PATCH=$(readlink -f "$1"); shift
WT=/tmp/wt_probe_$$
git -C /repo worktree add --detach "$WT" HEAD -q || exit 2
if ! git -C "$WT" apply "$PATCH"; then echo "patch does not apply"; git -C /repo worktree remove --force "$WT"; exit 2; fi
if ! (cd "$WT" && GOFLAGS=-mod=mod GOPROXY=off go build ./... ); then echo "does not build"; git -C /repo worktree remove --force "$WT"; exit 2; fi
for id in "$@"; do
  out=$(cd /verif && VERIF_REPO="$WT" ./vcheck run "$id" --tier ${TIER:-quick} ${BUDGET:+--budget $BUDGET} 2>&1)
  rc=$?
  echo "$id exit=$rc $(echo "$out" | grep -c '^VIOLATION') violation lines; $(echo "$out" | grep -m2 'class=' | tr '\n' ' ')"
  [ -n "${VERBOSE:-}" ] && echo "$out" | tail -15
done
git -C /repo worktree remove --force "$WT"
