#!/bin/bash
# Builds the simulation framework offline from files on disk: every scenario test
# binary against /repo's current tree with the verif hooks on (go1.26.8, module cache only).
set -e
cd "$(dirname "$0")"
export GOFLAGS=-mod=mod GOPROXY=off GOSUMDB=off GOTOOLCHAIN=local
mkdir -p .cache/bin .cache/go-build evidence
ids=$(python3 -c "import json;print(' '.join(c['property_id'] for c in json.load(open('MANIFEST.json'))['checks']))")
./vcheck build $ids
