// C10 — honest peers negotiate by the policy table and agree on the result.
// Two real endpoints, the full 4^4 level matrix x method-list shapes x cipher
// lists x command present/auth-only, transport nondeterminism on top; the
// oracle is a decision table written from the property statement.
package c10

import (
	"bytes"
	"context"
	"errors"
	"fmt"
	"io"
	"strings"
	"testing"
	"time"

	"cedarsim/hs"
	"cedarsim/kernel"
	"cedarsim/scen"
	"cedarsim/simnet"

	"github.com/bbockelm/cedar/security"
)

type params struct {
	CA, SA, CE, SE int // indexes into hs.Levels
	Shape          int
	Cipher         int   // 0 common AES, 1 none in common, 2 server [3DES,AES] vs client [AES], 3 both [AES,BLOWFISH,3DES], 4 server [BLOWFISH,AES] vs client [AES,BLOWFISH], 5 both [BLOWFISH]
	Reuse          []int `json:"reuse,omitempty"` // config-reuse scenario: indices into reuseServerLists, one per successive handshake
	Cmd            int   // command, or -1 for auth-only
}

type shape struct {
	name   string
	c, s   []security.AuthMethod
	usable int // 1 a mutually usable method exists, 0 none, -1 depends on reading "supported" (agreement only)
	token  int // 0 none, 1 client holds a valid token
}

var (
	CTB = security.AuthClaimToBe
	TOK = security.AuthToken
	PW  = security.AuthPassword
)

var shapes = []shape{
	{"equal-claimtobe", []security.AuthMethod{CTB}, []security.AuthMethod{CTB}, 1, 0},
	{"overlap-reordered", []security.AuthMethod{CTB, TOK}, []security.AuthMethod{TOK, CTB}, 1, 1},
	{"disjoint", []security.AuthMethod{CTB}, []security.AuthMethod{TOK}, 0, 0},
	{"client-empty", nil, []security.AuthMethod{CTB}, 0, 0},
	{"server-empty", []security.AuthMethod{CTB}, nil, 0, 0},
	{"unimplemented-first", []security.AuthMethod{PW, CTB}, []security.AuthMethod{PW, CTB}, 1, 0},
	// names cedar does not implement at all (no method bit) ahead of the usable common method
	{"unknown-name-first-on-server", []security.AuthMethod{CTB}, []security.AuthMethod{security.AuthMethod("MUNGE"), CTB}, 1, 0},
	{"unknown-name-first-on-client", []security.AuthMethod{security.AuthMethod("GSI"), CTB}, []security.AuthMethod{CTB}, 1, 0},
	{"unknown-between", []security.AuthMethod{TOK, CTB}, []security.AuthMethod{TOK, security.AuthMethod("GSI"), CTB}, 1, 0},
	// the SSL method between two cedar endpoints: certificate on the server, CA on the client
	{"ssl", []security.AuthMethod{security.AuthSSL}, []security.AuthMethod{security.AuthSSL}, 1, 0},
	{"ssl-after-unusable", []security.AuthMethod{TOK, security.AuthSSL}, []security.AuthMethod{TOK, security.AuthSSL}, 1, 0},
	// two methods in a row that cannot complete here (not implemented; no credentials) ahead of the usable one:
	// the retry logic has to get past both
	{"two-unusable-first", []security.AuthMethod{PW, security.AuthKerberos, CTB}, []security.AuthMethod{PW, security.AuthKerberos, CTB}, 1, 0},
	{"two-unusable-first-reordered", []security.AuthMethod{security.AuthKerberos, CTB, PW}, []security.AuthMethod{PW, security.AuthKerberos, CTB}, 1, 0},
	{"token-listed-not-held", []security.AuthMethod{TOK}, []security.AuthMethod{TOK}, -1, 0},
	{"token-held", []security.AuthMethod{TOK}, []security.AuthMethod{TOK}, 1, 1},
}

func closedClass(err error) bool {
	if err == nil {
		return false
	}
	if errors.Is(err, io.EOF) || errors.Is(err, io.ErrUnexpectedEOF) {
		return true
	}
	m := err.Error()
	for _, s := range []string{"EOF", "closed network", "connection reset", "broken pipe"} {
		if strings.Contains(m, s) {
			return true
		}
	}
	return false
}

func run(s *kernel.Sim, c *scen.Case) {
	var p params
	c.P(&p)
	if len(p.Reuse) > 0 {
		runReuse(s, p)
		return
	}
	hs.Init()
	t := s.T
	ctx := context.Background()
	sh := shapes[p.Shape]
	ca, sa, ce, se := hs.Levels[p.CA], hs.Levels[p.SA], hs.Levels[p.CE], hs.Levels[p.SE]
	cciph, sciph := hs.AES, hs.AES
	switch p.Cipher {
	case 1:
		sciph = []security.CryptoMethod{security.CryptoBlowfish}
	case 2: // a common cipher exists but is not the server's first
		sciph = []security.CryptoMethod{security.Crypto3DES, security.CryptoAES}
	case 3: // several common ciphers, the preferred (and only implemented) one first
		cciph = []security.CryptoMethod{security.CryptoAES, security.CryptoBlowfish, security.Crypto3DES}
		sciph = cciph
	case 4: // AES is common, but the first common cipher in the server's order is one cedar cannot run
		cciph = []security.CryptoMethod{security.CryptoAES, security.CryptoBlowfish}
		sciph = []security.CryptoMethod{security.CryptoBlowfish, security.CryptoAES}
	case 5: // the only common cipher is one cedar cannot run
		cciph = []security.CryptoMethod{security.CryptoBlowfish}
		sciph = cciph
	}
	ccfg := hs.Cfg(ca, ce, sh.c, cciph, p.Cmd)
	scfg := hs.Cfg(sa, se, sh.s, sciph, security.NoCommand)
	ccfg.SessionCache = security.NewSessionCache()
	tw := hs.NewTokenWorld(t)
	tw.ServerToken(scfg)
	ccfg.TrustDomain = tw.Issuer
	if sh.token == 1 {
		now := hs.Now()
		ccfg.Token = tw.Token(now-10, now+3600)
	}
	if strings.HasPrefix(sh.name, "ssl") {
		sw, err := hs.NewSSLWorld()
		if err != nil {
			s.Violate("harness", "ssl-world", err.Error())
			return
		}
		defer sw.Close()
		sw.Server(scfg)
		sw.Client(ccfg)
	}
	net := simnet.New(s, simnet.DrawConfig(t))
	pr := hs.NewPair(net, 1)
	var cn, sn *security.SecurityNegotiation
	var cerr, serr error
	var cgot, sgot []byte
	var cxerr, sxerr error
	s.Go("client", func() {
		a := security.NewAuthenticator(ccfg, pr.CS)
		cn, cerr = a.ClientHandshake(ctx)
		if cerr != nil {
			pr.CE.Close()
			return
		}
		if cxerr = pr.CS.SendMessage(ctx, []byte("ping-from-client")); cxerr != nil {
			return
		}
		cgot, cxerr = pr.CS.ReceiveCompleteMessage(ctx)
	})
	s.Go("server", func() {
		a := security.NewAuthenticator(scfg, pr.SS)
		sn, serr = a.ServerHandshake(ctx)
		if serr != nil {
			pr.SE.Close()
			return
		}
		sgot, sxerr = pr.SS.ReceiveCompleteMessage(ctx)
		if sxerr != nil {
			return
		}
		sxerr = pr.SS.SendMessage(ctx, []byte("pong-from-server"))
	})
	s.Run()
	defer func() { pr.CE.CloseQuiet(); pr.SE.CloseQuiet() }()
	for _, tk := range s.Tasks() {
		if tk.Panic != nil {
			s.Violate("panic", sh.name, fmt.Sprintf("task %s: %v\n%s", tk.Name, tk.Panic, tk.Stack))
			return
		}
	}
	R, P, N := security.SecurityRequired, security.SecurityPreferred, security.SecurityNever
	commonCipher := p.Cipher != 1
	authReq := ca == R || sa == R
	encReq := ce == R || se == R
	authClash := (ca == R && sa == N) || (ca == N && sa == R)
	encClash := (ce == R && se == N) || (ce == N && se == R)
	ambiguous := sh.usable == -1 && (authReq || ((ca == P || sa == P) && ca != N && sa != N))
	mustFail := authClash || encClash || (authReq && sh.usable == 0) || (encReq && !commonCipher)
	if p.Cipher >= 4 && encReq && !mustFail {
		// a cipher both list but cedar cannot run comes first: whether a REQUIRED side may then fail
		// depends on reading "supported" as listed or usable - agreement only (the statement leaves it open)
		ambiguous = true
	}
	mustAuth := !mustFail && sh.usable == 1 && (authReq || ((ca == P || sa == P) && ca != N && sa != N))
	mustEnc := !mustFail && encReq
	cell := fmt.Sprintf("auth %s/%s enc %s/%s methods %s cipher=%d cmd=%d", hs.LevelName(ca), hs.LevelName(sa), hs.LevelName(ce), hs.LevelName(se), sh.name, p.Cipher, p.Cmd)
	sig := func(kind string) string {
		return fmt.Sprintf("%s/%s/auth=%s-%s/enc=%s-%s", kind, sh.name, hs.LevelName(ca), hs.LevelName(sa), hs.LevelName(ce), hs.LevelName(se))
	}
	s.Note("%s: client err=%v server err=%v blocked=%v", cell, cerr, serr, s.BlockedAt)
	if s.Overrun {
		s.Violate("handshake-does-not-terminate", sig("spin"), fmt.Sprintf("%s: after %d scheduler steps the two honest ends were still exchanging handshake messages (client sent %d bytes, server %d)", cell, s.Step, len(pr.CE.SentBytes()), len(pr.SE.SentBytes())))
		return
	}
	if s.Quiescent && cerr == nil && serr == nil && (cn == nil || sn == nil) {
		s.Violate("handshake-hung", sig("hang"), cell+": neither side returned; blocked at "+fmt.Sprint(s.BlockedAt))
		return
	}
	if mustFail && !ambiguous {
		s.Probe("cell:must-fail")
		if cerr == nil || serr == nil {
			s.Violate("incompatible-policies-succeeded", sig("must-fail"), fmt.Sprintf("%s: must fail, but client err=%v server err=%v", cell, cerr, serr))
			return
		}
		if closedClass(cerr) {
			s.Violate("bare-close-instead-of-denial", sig("denial"), fmt.Sprintf("%s: client saw %q instead of an explicit denial (server: %v)", cell, cerr, serr))
		}
		return
	}
	if ambiguous {
		s.Probe("cell:agreement-only")
		if (cerr == nil) != (serr == nil) && !(cerr != nil && serr == nil && sn == nil) {
			// one side believes the session exists, the other does not
			if cerr == nil && serr != nil {
				s.Violate("ends-disagree-on-success", sig("agree"), fmt.Sprintf("%s: client succeeded, server failed: %v", cell, serr))
			}
		}
		if cerr != nil || serr != nil {
			return
		}
	}
	// must succeed
	s.Probe("cell:must-succeed")
	if cerr != nil || serr != nil {
		s.Violate("compatible-policies-failed", sig("must-succeed"), fmt.Sprintf("%s: must succeed, but client err=%v server err=%v", cell, cerr, serr))
		return
	}
	if cn.Authentication != sn.Authentication {
		s.Violate("ends-disagree-on-authentication", sig("agree-auth"), fmt.Sprintf("%s: client reports Authentication=%v, server %v", cell, cn.Authentication, sn.Authentication))
		return
	}
	if cn.Encryption != sn.Encryption || pr.CS.IsEncrypted() != pr.SS.IsEncrypted() {
		s.Violate("ends-disagree-on-encryption", sig("agree-enc"), fmt.Sprintf("%s: client reports Encryption=%v (stream %v), server %v (stream %v)", cell, cn.Encryption, pr.CS.IsEncrypted(), sn.Encryption, pr.SS.IsEncrypted()))
		return
	}
	if cn.Encryption != pr.CS.IsEncrypted() || sn.Encryption != pr.SS.IsEncrypted() {
		// both ends must report the encryption OUTCOME: two ends agreeing on a flag that is not what their streams do report nothing
		s.Violate("reported-encryption-is-not-the-outcome", sig("outcome-enc"), fmt.Sprintf("%s: client reports Encryption=%v on a stream with encryption %v; server reports %v on a stream with encryption %v", cell, cn.Encryption, pr.CS.IsEncrypted(), sn.Encryption, pr.SS.IsEncrypted()))
		return
	}
	if cn.SessionId == "" || cn.SessionId != sn.SessionId {
		s.Violate("ends-disagree-on-session-id", sig("agree-sid"), fmt.Sprintf("%s: client sid %q server sid %q", cell, cn.SessionId, sn.SessionId))
		return
	}
	if !bytes.Equal(cn.GetSharedSecret(), sn.GetSharedSecret()) {
		s.Violate("ends-hold-different-keys", sig("agree-key"), cell)
		return
	}
	// (the SSL method authenticates the server to the client; without a client certificate
	// the server has no identity to record for the client, so only the flag is demanded there)
	if mustAuth && !(sn.Authentication && (sn.User != "" || strings.HasPrefix(sh.name, "ssl"))) {
		s.Violate("authentication-did-not-run", sig("must-auth"), fmt.Sprintf("%s: authentication must run, server reports Authentication=%v user=%q method=%q", cell, sn.Authentication, sn.User, sn.NegotiatedAuth))
		return
	}
	if mustEnc && !(pr.CS.IsEncrypted() && pr.SS.IsEncrypted() && cn.Encryption) {
		s.Violate("encryption-not-on", sig("must-enc"), fmt.Sprintf("%s: encryption must be on; streams %v/%v", cell, pr.CS.IsEncrypted(), pr.SS.IsEncrypted()))
		return
	}
	if cxerr != nil || sxerr != nil || string(sgot) != "ping-from-client" || string(cgot) != "pong-from-server" {
		s.Violate("no-immediate-traffic", sig("traffic"), fmt.Sprintf("%s: exchange after handshake failed: client %v server %v got %q/%q", cell, cxerr, sxerr, sgot, cgot))
		return
	}
	if sn.Authentication {
		s.Probe("authenticated:" + string(sn.NegotiatedAuth))
	}
	if pr.CS.IsEncrypted() {
		s.Probe("encrypted")
	}
}

var reuseServerLists = [][]security.AuthMethod{{CTB}, {TOK}, {TOK, CTB}, {CTB, TOK}}

// runReuse: ONE client SecurityConfig object (methods TOKEN and CLAIMTOBE, a valid token
// held) is used for successive full handshakes against servers that list different
// methods. Each handshake is judged on its own by the table: authentication REQUIRED on
// both sides and a usable common method means it succeeds and authenticates with a method
// both listed - whatever earlier handshakes did with the configuration.
func runReuse(s *kernel.Sim, p params) {
	hs.Init()
	t := s.T
	ctx := context.Background()
	tw := hs.NewTokenWorld(t)
	ccfg := hs.Cfg(security.SecurityRequired, security.SecurityOptional, []security.AuthMethod{TOK, CTB}, hs.AES, 60021)
	ccfg.TrustDomain = tw.Issuer
	ccfg.Token = tw.Token(hs.Now()-10, hs.Now()+3600)
	ncfg := simnet.DrawConfig(t)
	if ncfg.MaxLatency > 50*time.Millisecond {
		ncfg.MaxLatency = 50 * time.Millisecond // three handshakes must fit into the token's lifetime
	}
	if ncfg.Window == 1 {
		ncfg.Window = 64
	}
	net := simnet.New(s, ncfg)
	s.Quantum, s.IdleMax = 3*time.Second, 1 // phases must not burn the token's lifetime while idling out
	for i, li := range p.Reuse {
		// a fresh cache each time: every handshake is a full one
		ccfg.SessionCache = security.NewSessionCache()
		list := reuseServerLists[li%len(reuseServerLists)]
		scfg := hs.Cfg(security.SecurityRequired, security.SecurityOptional, list, hs.AES, security.NoCommand)
		tw.ServerToken(scfg)
		pr := hs.NewPair(net, i+1)
		var cn, sn *security.SecurityNegotiation
		var cerr, serr error
		s.Go(fmt.Sprintf("client%d", i), func() {
			cn, cerr = security.NewAuthenticator(ccfg, pr.CS).ClientHandshake(ctx)
			pr.CE.Close()
		})
		s.Go(fmt.Sprintf("server%d", i), func() {
			sn, serr = security.NewAuthenticator(scfg, pr.SS).ServerHandshake(ctx)
			pr.SE.Close()
		})
		s.Run()
		pr.CE.CloseQuiet()
		pr.SE.CloseQuiet()
		for _, tk := range s.Tasks() {
			if tk.Panic != nil {
				s.Violate("panic", "config-reuse", fmt.Sprintf("task %s: %v\n%s", tk.Name, tk.Panic, tk.Stack))
				return
			}
		}
		cell := fmt.Sprintf("handshake %d of %v with one client configuration [TOKEN,CLAIMTOBE] against a server listing %s", i+1, p.Reuse, hs.MethodsName(list))
		sig := fmt.Sprintf("config-reuse/handshake%d/server=%s", i+1, hs.MethodsName(list))
		if cerr != nil || serr != nil || cn == nil || sn == nil {
			s.Violate("compatible-policies-failed", sig, fmt.Sprintf("%s: must succeed, but client err=%v server err=%v (client configuration now lists %s)", cell, cerr, serr, hs.MethodsName(ccfg.AuthMethods)))
			return
		}
		if !sn.Authentication || !cn.Authentication {
			s.Violate("authentication-did-not-run", sig, cell)
			return
		}
		okm := false
		for _, m := range list {
			if m == sn.NegotiatedAuth && (m == TOK || m == CTB) {
				okm = true
			}
		}
		if !okm || cn.NegotiatedAuth != sn.NegotiatedAuth {
			s.Violate("ends-disagree-on-method", sig, fmt.Sprintf("%s: client says %q server says %q", cell, cn.NegotiatedAuth, sn.NegotiatedAuth))
			return
		}
	}
	if got := hs.MethodsName(ccfg.AuthMethods); got != "TOKEN+CLAIMTOBE" {
		s.Probe("client-configuration-changed-by-handshake")
	}
	s.Probe("config-reuse-sequence-ok")
}

var scenarios = []*scen.Scenario{
	{Name: "matrix", Enumerated: true, Gen: func(g *scen.Gen) {
		seed := g.Seed * 104729
		for shi := range shapes {
			for cipher := 0; cipher < 6; cipher++ {
				if cipher >= 2 && shapes[shi].name != "equal-claimtobe" && shapes[shi].name != "disjoint" {
					continue // the longer cipher lists run with one authenticating and one non-authenticating shape
				}
				for _, cmd := range []int{60021, -1} {
					for ca := 0; ca < 4; ca++ {
						for sa := 0; sa < 4; sa++ {
							for ce := 0; ce < 4; ce++ {
								for se := 0; se < 4; se++ {
									seed++
									if !g.Emit(scen.Case{Seed: seed, Params: scen.Params(params{CA: ca, SA: sa, CE: ce, SE: se, Shape: shi, Cipher: cipher, Cmd: cmd})}) {
										return
									}
								}
							}
						}
					}
				}
			}
		}
	}, Run: run},
	{Name: "config-reuse", Enumerated: true, Gen: func(g *scen.Gen) {
		seed := g.Seed * 611953
		n := len(reuseServerLists)
		for a := 0; a < n; a++ {
			for b := 0; b < n; b++ {
				for c := 0; c < n; c++ {
					seed++
					if !g.Emit(scen.Case{Seed: seed, Params: scen.Params(params{Reuse: []int{a, b, c}})}) {
						return
					}
				}
			}
		}
	}, Run: run},
}

func TestScenario(t *testing.T) { scen.Main(t, "C10", scenarios) }
