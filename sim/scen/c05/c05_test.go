// C05 — the server runs a command only on a session that meets that command's
// policy. A real server.Server with per-command policies and an authorizer
// table that change between connections; real clients drive command sequences
// within a connection (kept-alive follow-ons), across connections (resumption
// with another command), through the raw path and with unknown commands. A
// monitor wrapped around every handler checks each invocation against ground
// truth the harness owns.
package c05

import (
	"context"
	"fmt"
	"net"
	"testing"
	"time"

	"cedarsim/hs"
	"cedarsim/kernel"
	"cedarsim/puppet"
	"cedarsim/scen"
	"cedarsim/simnet"

	"github.com/bbockelm/cedar/message"
	"github.com/bbockelm/cedar/security"
	"github.com/bbockelm/cedar/server"
	"github.com/bbockelm/cedar/stream"
)

type params struct {
	Kind string `json:"kind"`
	A    int    `json:"a,omitempty"`
	B    int    `json:"b,omitempty"`
	CK   int    `json:"ck,omitempty"`
}

type cmdDef struct {
	cmd   int
	raw   bool
	perms []string
	auth  security.SecurityLevel
	enc   security.SecurityLevel
	integ security.SecurityLevel
	// useDefault: the per-command selector returns nil for this command; auth/enc/integ
	// then hold the server's default policy, which is what must be met
	useDefault bool
}

type invocation struct {
	cmd      int
	viaRaw   bool
	user     string
	negAuth  bool
	negEnc   bool
	stEnc    bool
	sid      string
	resumed  bool
	wantAuth bool
	wantEnc  bool
}

type truth struct{ authed, keyed bool }

type zoo struct {
	s       *kernel.Sim
	defs    map[int]*cmdDef
	order   []int
	authz   map[string]bool // perm+"|"+user -> allowed; nil => no authorizer
	useAuth bool
	inv     []invocation
	truth   map[string]truth // session id -> ground truth
	viol    bool
}

var allPerms = []string{"READ", "WRITE", "DAEMON"}

func (z *zoo) policy(cmd int) *security.SecurityConfig {
	d := z.defs[cmd]
	if d == nil || d.useDefault {
		return nil // "no per-command policy": the server's default configuration applies
	}
	cfg := hs.Cfg(d.auth, d.enc, []security.AuthMethod{security.AuthClaimToBe}, hs.AES, security.NoCommand)
	cfg.Integrity = d.integ
	return cfg
}

func (z *zoo) authorized(cmd int, user string) bool {
	d := z.defs[cmd]
	for _, p := range d.perms {
		if z.authz[p+"|"+user] {
			return true
		}
	}
	return false
}

// check is the monitor: called at the moment a handler is invoked.
func (z *zoo) check(c *server.Conn, cmd int, registeredRaw bool) {
	s := z.s
	iv := invocation{cmd: cmd, viaRaw: c.Negotiation == nil, stEnc: c.Stream.IsEncrypted()}
	if c.Negotiation != nil {
		iv.user, iv.negAuth, iv.negEnc, iv.sid, iv.resumed = c.Negotiation.User, c.Negotiation.Authentication, c.Negotiation.Encryption, c.Negotiation.SessionId, c.Negotiation.SessionResumed
	}
	z.inv = append(z.inv, iv)
	if z.viol {
		return
	}
	fail := func(class, sig, msg string) { z.viol = true; s.Violate(class, sig, msg) }
	d := z.defs[cmd]
	if c.Command != cmd {
		fail("handler-for-other-command", fmt.Sprint(cmd), fmt.Sprintf("handler of %d invoked with Conn.Command=%d", cmd, c.Command))
		return
	}
	if registeredRaw {
		if !iv.viaRaw {
			fail("raw-handler-reached-through-handshake", "raw", fmt.Sprintf("raw command %d dispatched on the authenticated path", cmd))
		}
		return
	}
	if iv.viaRaw {
		fail("authenticated-handler-reached-raw", "auth", fmt.Sprintf("authenticated command %d dispatched without a handshake", cmd))
		return
	}
	// The server reaches the handler as soon as it has sent the post-auth ad, possibly
	// before the client's handshake has returned and the harness recorded what that
	// session really is: wait for the record (the client does not depend on the handler).
	if _, known := z.truth[iv.sid]; !known {
		s.Park("monitor:"+iv.sid, truthWait{z, iv.sid})
	}
	gt, known := z.truth[iv.sid]
	if !known {
		s.Probe("invocation-not-judged:client-never-completed")
		return
	}
	where := fmt.Sprintf("command %d (policy auth=%s enc=%s integ=%s, perms %v) on session %s (resumed=%v, really authenticated=%v, really keyed=%v, stream encrypted=%v, user %q)", cmd, d.auth, d.enc, d.integ, d.perms, iv.sid, iv.resumed, gt.authed, gt.keyed, iv.stEnc, iv.user)
	if d.auth == security.SecurityRequired && !gt.authed {
		fail("ran-without-required-authentication", fmt.Sprintf("resumed=%v", iv.resumed), where)
		return
	}
	if (d.enc == security.SecurityRequired || d.integ == security.SecurityRequired) && !(iv.stEnc && gt.keyed) {
		fail("ran-without-required-encryption", fmt.Sprintf("resumed=%v", iv.resumed), where)
		return
	}
	if z.useAuth && !z.authorized(cmd, iv.user) {
		fail("ran-unauthorized", fmt.Sprintf("resumed=%v", iv.resumed), where+" — the authorizer currently rejects this identity at every level of the command")
		return
	}
	s.Probe("handler-ran-ok")
}

type truthWait struct {
	z   *zoo
	sid string
}

func (w truthWait) Ready(s *kernel.Sim) bool {
	_, ok := w.z.truth[w.sid]
	return ok || s.Ended()
}

func reply(ctx context.Context, st *stream.Stream, txt string) error {
	m := message.NewMessageForStream(st)
	if err := m.PutBytes(ctx, []byte(txt)); err != nil {
		return err
	}
	return m.FinishMessage(ctx)
}

type clientSpec struct {
	auth, enc security.SecurityLevel
	keyless   bool // offer no common cipher: the session ends up without a key
}

func run(s *kernel.Sim, c *scen.Case) {
	var p params
	c.P(&p)
	hs.Init()
	t := s.T
	bg := context.Background()
	net0 := simnet.New(s, simnet.Config{MaxLatency: 2 * time.Millisecond})
	z := &zoo{s: s, defs: map[int]*cmdDef{}, truth: map[string]truth{}}
	lvl := func(l string) security.SecurityLevel { return hs.Levels[t.Choose(l, 4)] }
	// the zoo: 5 authenticated commands with drawn policies, 1 raw command
	for i := 0; i < 5; i++ {
		d := &cmdDef{cmd: 61000 + i, auth: lvl("c.auth"), enc: lvl("c.enc"), integ: security.SecurityOptional}
		if t.Chance("c.integ", 1, 6) {
			d.integ = security.SecurityRequired
		}
		np := 1 + t.Choose("c.np", 2)
		for j := 0; j < np; j++ {
			d.perms = append(d.perms, allPerms[t.Choose("c.perm", 3)])
		}
		z.defs[d.cmd] = d
		z.order = append(z.order, d.cmd)
	}
	if p.Kind == "cube" {
		// the exhaustively swept cube fixes two commands: a permissive one and a demanding one
		z.defs[61000].auth, z.defs[61000].enc, z.defs[61000].integ = hs.Levels[p.A/4], hs.Levels[p.A%4], security.SecurityOptional
		z.defs[61001].auth, z.defs[61001].enc, z.defs[61001].integ = hs.Levels[p.B/4], hs.Levels[p.B%4], security.SecurityOptional
	}
	z.defs[62000] = &cmdDef{cmd: 62000, raw: true}
	z.useAuth = t.Choose("useauthz", 3) != 0
	z.authz = map[string]bool{}
	users := []string{"root", "unauthenticated@unmapped", ""}
	redraw := func() {
		for _, pm := range allPerms {
			for _, u := range users {
				z.authz[pm+"|"+u] = t.Choose("authz", 2) == 1
			}
		}
	}
	redraw()
	base := hs.Cfg(security.SecurityOptional, security.SecurityOptional, []security.AuthMethod{security.AuthClaimToBe}, hs.AES, security.NoCommand)
	if p.Kind != "cube" && t.Chance("default-policy-commands", 1, 2) {
		// some commands have no policy of their own: the selector returns nil for them and
		// the server's default (drawn, usually stricter than the permissive commands) applies
		base.Authentication, base.Encryption = lvl("base.auth"), lvl("base.enc")
		if t.Chance("base.integ", 1, 4) {
			base.Integrity = security.SecurityRequired
		}
		for _, cmd := range z.order[3:] {
			d := z.defs[cmd]
			d.useDefault, d.auth, d.enc, d.integ = true, base.Authentication, base.Encryption, base.Integrity
		}
	}
	srv := server.New(base)
	srv.SecurityConfigForCommand = func(cmd int) *security.SecurityConfig { return z.policy(cmd) }
	if z.useAuth {
		srv.Authorizer = func(perm, peer, user string) bool { return z.authz[perm+"|"+user] }
	}
	for _, cmd := range z.order {
		cmd := cmd
		srv.Handle(cmd, func(ctx context.Context, c *server.Conn) error {
			z.check(c, cmd, false)
			c.KeepAlive()
			return reply(ctx, c.Stream, fmt.Sprintf("ok:%d", cmd))
		}, z.defs[cmd].perms...)
	}
	srv.HandleRaw(62000, func(ctx context.Context, c *server.Conn) error {
		z.check(c, 62000, true)
		return reply(ctx, c.Stream, "raw:62000")
	})
	ln, err := net0.Listen("10.0.0.2:9618")
	if err != nil {
		panic(err)
	}
	sctx, cancel := context.WithCancel(bg)
	s.Go("serve", func() { _ = srv.Serve(sctx, ln) })
	cache := security.NewSessionCache()

	type connState struct {
		st  *stream.Stream
		ep  net.Conn
		neg *security.SecurityNegotiation
	}
	expectNone := func(what string, before int) {
		if len(z.inv) != before && !z.viol {
			z.viol = true
			iv := z.inv[len(z.inv)-1]
			s.Violate("handler-ran-for-refused-request", what, fmt.Sprintf("%s: a handler (command %d) ran although the request had to be refused", what, iv.cmd))
		}
	}
	readReply := func(cs *connState) (string, error) {
		b, err := cs.st.ReceiveCompleteMessage(bg)
		return string(b), err
	}
	doHandshake := func(cmd int, spec clientSpec) *connState {
		ep, err := net0.Dial(bg, "10.0.0.1", "10.0.0.2:9618")
		if err != nil {
			return nil
		}
		ciph := hs.AES
		if spec.keyless {
			ciph = []security.CryptoMethod{security.CryptoBlowfish}
		}
		cfg := hs.Cfg(spec.auth, spec.enc, []security.AuthMethod{security.AuthClaimToBe}, ciph, cmd)
		cfg.SessionCache = cache
		st := stream.NewStream(ep)
		neg, err := security.NewAuthenticator(cfg, st).ClientHandshake(bg)
		if err != nil {
			ep.Close()
			s.Probe("client-handshake-refused")
			return nil
		}
		if !neg.SessionResumed {
			z.truth[neg.SessionId] = truth{authed: neg.Authentication, keyed: st.IsEncrypted()}
		}
		return &connState{st: st, ep: ep, neg: neg}
	}
	drawSpec := func() clientSpec {
		return clientSpec{auth: lvl("cl.auth"), enc: lvl("cl.enc"), keyless: t.Chance("cl.keyless", 1, 5)}
	}
	pickCmd := func() int { return z.order[t.Choose("cmd", len(z.order))] }
	changePolicy := func() {
		d := z.defs[z.order[t.Choose("pc.cmd", len(z.order))]]
		d.auth, d.enc = lvl("pc.auth"), lvl("pc.enc")
		if d.useDefault {
			// the command has no policy of its own: what changes is the server's default,
			// and with it every command that falls back to it
			base.Authentication, base.Encryption = d.auth, d.enc
			for _, o := range z.defs {
				if o.useDefault {
					o.auth, o.enc = d.auth, d.enc
				}
			}
		}
	}

	s.Go("driver", func() {
		defer cancel()
		nconn := 2 + t.Choose("nconn", 3)
		if p.Kind == "cube" {
			nconn = 1
		}
		for ci := 0; ci < nconn && !z.viol; ci++ {
			kind := t.Choose("kind", 9)
			if p.Kind == "cube" {
				kind = 0
			}
			switch {
			case kind <= 4: // authenticated path: first command, then follow-ons on the kept-alive connection
				first := pickCmd()
				spec := drawSpec()
				if p.Kind == "cube" {
					first = 61000
					spec = clientSpec{auth: hs.Levels[p.CK%4], enc: hs.Levels[(p.CK/4)%4], keyless: p.CK >= 16}
				}
				cs := doHandshake(first, spec)
				if cs == nil {
					continue
				}
				if _, err := readReply(cs); err != nil {
					s.Probe("first-command-refused")
					cs.ep.Close()
					continue
				}
				s.Probe("first-command-ran")
				nfollow := t.Choose("nfollow", 4)
				if p.Kind == "cube" {
					nfollow = 1
				}
				for f := 0; f < nfollow && !z.viol; f++ {
					next := pickCmd()
					if p.Kind == "cube" {
						next = 61001
					}
					if t.Chance("follow-unknown", 1, 10) && p.Kind != "cube" {
						next = 69999
					}
					if t.Chance("follow-raw", 1, 10) && p.Kind != "cube" {
						next = 62000
					}
					if t.Chance("policy-change", 1, 5) {
						// policy and authorizer change while the connection is kept alive
						changePolicy()
						redraw()
						s.Fault("policy-changed")
					}
					before := len(z.inv)
					m := message.NewMessageForStream(cs.st)
					_ = m.PutInt(bg, next)
					if err := m.FinishMessage(bg); err != nil {
						break
					}
					rep, err := readReply(cs)
					if next == 69999 || next == 62000 {
						expectNone(fmt.Sprintf("follow-on %d on the authenticated path", next), before)
						if err == nil {
							z.viol = true
							s.Violate("connection-not-closed-after-refusal", "follow-on", fmt.Sprintf("follow-on command %d must be refused and the connection closed; got reply %q", next, rep))
						}
						break
					}
					if err != nil {
						s.Probe("follow-on-refused")
						expectNone(fmt.Sprintf("refused follow-on %d", next), before)
						break
					}
					s.Probe("follow-on-ran")
				}
				cs.ep.Close()
			case kind == 5: // raw path
				cmd := 62000
				if t.Chance("raw-auth-cmd", 1, 2) {
					cmd = pickCmd()
				}
				if t.Chance("raw-unknown", 1, 6) {
					cmd = 69999
				}
				ep, err := net0.Dial(bg, "10.0.0.1", "10.0.0.2:9618")
				if err != nil {
					continue
				}
				st := stream.NewStream(ep)
				before := len(z.inv)
				m := message.NewMessageForStream(st)
				_ = m.PutInt(bg, cmd)
				_ = m.FinishMessage(bg)
				b, err := st.ReceiveCompleteMessage(bg)
				if cmd != 62000 {
					expectNone(fmt.Sprintf("command %d sent raw", cmd), before)
					if err == nil {
						z.viol = true
						s.Violate("connection-not-closed-after-refusal", "raw", fmt.Sprintf("raw request for %d got reply %q", cmd, b))
					}
				} else if err == nil {
					s.Probe("raw-command-ran")
				}
				ep.Close()
			case kind == 6: // handshake naming the raw or an unknown command
				cmd := 62000
				if t.Chance("hs-unknown", 1, 2) {
					cmd = 69999
				}
				before := len(z.inv)
				cs := doHandshake(cmd, drawSpec())
				if cs != nil {
					_, err := readReply(cs)
					expectNone(fmt.Sprintf("command %d requested through the handshake", cmd), before)
					if err == nil {
						z.viol = true
						s.Violate("connection-not-closed-after-refusal", "handshake", fmt.Sprintf("command %d", cmd))
					}
					cs.ep.Close()
				}
			case kind == 8: // a client that deviates in the key agreement (scripted): unusable, truncated or missing ECDH key
				cmd := pickCmd()
				ep, err := net0.Dial(bg, "10.0.0.1", "10.0.0.2:9618")
				if err != nil {
					continue
				}
				st := stream.NewStream(ep)
				dev := puppet.Dev{ECDH: kernel.Pick(t, "ecdh", "random", "truncate", "omit", "garbage")}
				if t.Chance("dv.bitmask", 1, 3) {
					// ... or in the method selection: its ad lists a method the server has, its bitmask names only others
					dev = puppet.Dev{ClientBitmask: kernel.Pick(t, "dv.mask", puppet.BitKerberos, puppet.BitFS|puppet.BitKerberos, puppet.BitSSL)}
				}
				lv := func(l security.SecurityLevel) string { return string(l) }
				rec := puppet.Client(bg, st, puppet.ClientOpts{Methods: []string{"CLAIMTOBE"}, Auth: lv(lvl("dv.auth")), Enc: lv(lvl("dv.enc")), Command: cmd, User: "root", Dev: dev})
				if rec.Err != nil || rec.PostAuth == nil {
					s.Probe("deviating-client-refused")
					ep.Close()
					continue
				}
				if sid, ok := rec.PostAuth.EvaluateAttrString("Sid"); ok {
					z.truth[sid] = truth{authed: rec.AuthRan != "", keyed: rec.KeyInstalled}
				}
				if _, err := st.ReceiveCompleteMessage(bg); err == nil {
					s.Probe("deviating-client-command-ran")
				}
				ep.Close()
			case kind == 7: // time passes / policy and authorizer change between connections
				changePolicy()
				redraw()
				s.Fault("policy-changed")
				s.Sleep("driver", time.Duration(1+t.Choose("sleep", 120))*time.Second)
			}
		}
	})
	s.Run()
	ln.Close()
	for _, tk := range s.Tasks() {
		if tk.Panic != nil {
			s.Violate("panic", "c05", fmt.Sprintf("task %s: %v\n%s", tk.Name, tk.Panic, tk.Stack))
			return
		}
	}
}

var scenarios = []*scen.Scenario{
	{Name: "cube", Enumerated: true, Gen: func(g *scen.Gen) {
		seed := g.Seed * 86243
		// first command policy x follow-on policy x client kind (levels and keyless)
		for a := 0; a < 16; a++ {
			for b := 0; b < 16; b++ {
				for ck := 0; ck < 32; ck++ {
					if g.Quick() && (a*7+b*3+ck)%4 != 0 {
						continue
					}
					seed++
					if !g.Emit(scen.Case{Seed: seed, Params: scen.Params(params{Kind: "cube", A: a, B: b, CK: ck})}) {
						return
					}
				}
			}
		}
	}, Run: run},
	{Name: "history", Gen: func(g *scen.Gen) {
		for i := uint64(0); ; i++ {
			if !g.Emit(scen.Case{Seed: g.Seed*1_000_003 + i, Params: scen.Params(params{Kind: "history"})}) {
				return
			}
		}
	}, Run: run},
}

func TestScenario(t *testing.T) { scen.Main(t, "C05", scenarios) }
