package c17

import (
	"testing"
	"testing/synctest"

	"cedarsim/kernel"
)

var shared int

func TestSpike(t *testing.T) {
	synctest.Test(t, func(t *testing.T) {
		s := kernel.NewSim(kernel.NewTape(1))
		for i := 0; i < 2; i++ {
			s.Go("w", func() {
				for k := 0; k < 3; k++ {
					shared++
					s.Yield("y")
				}
			})
		}
		s.Run()
	})
}
