//go:build !verifyield

package c17

import "cedarsim/kernel"

// Built against the unmodified sources: no injected scheduling points (the
// interleaving granularity is then the simulator's I/O primitives only).
const yieldBuild = false

func installYield(s *kernel.Sim, y *yctl) {}
func removeYield()                        {}
