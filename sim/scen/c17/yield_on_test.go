//go:build verifyield

package c17

import (
	"cedarsim/kernel"

	"github.com/bbockelm/cedar/verifhook"
)

// yieldBuild: the cedar sources under test carry the inserted scheduling points
// (cmd/yieldgen) and these hooks connect them to the simulator.
const yieldBuild = true

type probeReady struct{ probe func() bool }

// Ready runs on the scheduler goroutine: its TryLock/Unlock on cedar's mutex must not
// become happens-before edges between the tasks that use the mutex.
func (p probeReady) Ready(s *kernel.Sim) bool {
	if s.Ended() {
		return true
	}
	kernel.RaceOff()
	ok := p.probe()
	kernel.RaceOn()
	return ok
}

func installYield(s *kernel.Sim, y *yctl) {
	verifhook.YieldFunc = func(site string) {
		if y.off || s.Ended() {
			return
		}
		y.hits++
		cur := s.Current()
		if y.held.get(cur) > 0 || y.parks >= y.maxParks || !y.enabled(site) {
			return
		}
		y.parks++
		s.Probe("yield-parks")
		s.Yield("y:" + cur + "@" + site) // (site in the key: canonical order among goroutines cedar started itself)
	}
	verifhook.LockWaitFunc = func(site string, probe func() bool) {
		if s.Ended() {
			return
		}
		s.Probe("lock-waits")
		y.lockWaiters++
		s.Park("lock:"+s.Current()+"@"+site, probeReady{probe})
		y.lockWaiters--
	}
	verifhook.HeldFunc = func(d int) { y.held.add(s.Current(), d) }
}

func removeYield() {
	verifhook.YieldFunc, verifhook.LockWaitFunc, verifhook.HeldFunc = nil, nil, nil
}
