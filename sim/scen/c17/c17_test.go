// C17 — shared state is safe under concurrency. Many tasks use one session
// cache, one security configuration, one server and one stream at once; the
// seeded scheduler decides every interleaving at the simulator's I/O primitives
// and at scheduling points inserted into a scratch copy of the sources
// (cmd/yieldgen): function entries, before every lock acquisition and after every
// release. The binary is built with the race detector, and the simulator's own
// hand-offs are hidden from it (kernel/simnet/scenario code is compiled without
// instrumentation and brackets its channel operations with RaceDisable), so the
// detector sees exactly the ordering cedar's own synchronisation provides even
// though only one task runs at a time. Oracles: race reports (driver), a
// linearizability check of the cache history against a sequential model
// (porcupine), handshake-isolation and stream-order post-conditions.
package c17

import (
	"context"
	"fmt"
	"hash/fnv"
	"net"
	"reflect"
	"sort"
	"strings"
	"testing"
	"time"

	"cedarsim/hs"
	"cedarsim/kernel"
	"cedarsim/scen"
	"cedarsim/simnet"

	"github.com/anishathalye/porcupine"
	"github.com/bbockelm/cedar/ccb"
	"github.com/bbockelm/cedar/client"
	"github.com/bbockelm/cedar/message"
	"github.com/bbockelm/cedar/security"
	"github.com/bbockelm/cedar/server"
	"github.com/bbockelm/cedar/stream"
	"github.com/bbockelm/cedar/verifhook"
)

type params struct {
	Kind string `json:"kind"` // cache | handshakes | stream | listener
}

// yctl decides which inserted scheduling points park in this run.
type yctl struct {
	salt, dens  uint32
	held        heldCount
	parks, hits int
	maxParks    int
	off         bool
	lockWaiters int
}

// heldCount: locks held per task (no Go map in state shared by tasks: see kernel.counter).
type heldCount struct {
	k []string
	v []int
}

func (h *heldCount) add(name string, d int) {
	for i, k := range h.k {
		if k == name {
			h.v[i] += d
			return
		}
	}
	h.k, h.v = append(h.k, name), append(h.v, d)
}

func (h *heldCount) get(name string) int {
	for i, k := range h.k {
		if k == name {
			return h.v[i]
		}
	}
	return 0
}

func (y *yctl) enabled(site string) bool {
	if y.dens <= 1 {
		return true
	}
	h := fnv.New32a()
	h.Write([]byte(site))
	return (h.Sum32()^y.salt)%y.dens == 0
}

func newYctl(s *kernel.Sim) *yctl {
	t := s.T
	y := &yctl{maxParks: 4000, off: true} // switched on only while a scheduler runs
	y.dens = uint32(kernel.Pick(t, "ydens", 1, 2, 3, 6))
	y.salt = uint32(t.Choose("ysalt", 1<<16))
	installYield(s, y)
	return y
}

// ---------------------------------------------------------------- cache workload

type opIn struct {
	Op    string
	ID    string
	Key   string
	Tok   int
	Exp   int64 // offset from the start of the run; Never set: no expiry
	Never bool
	Lease int64
	Now   int64
}

type opOut struct {
	Tok int
	B   bool
	N   int
	L   string
	T   int64
}

type entM struct {
	exp   int64
	never bool
	lease int64
}

type cacheM struct {
	ents  map[int]entM
	cache map[string]int
	cmd   map[string]string
}

func (m cacheM) clone() cacheM {
	n := cacheM{ents: map[int]entM{}, cache: map[string]int{}, cmd: map[string]string{}}
	for k, v := range m.ents {
		n.ents[k] = v
	}
	for k, v := range m.cache {
		n.cache[k] = v
	}
	for k, v := range m.cmd {
		n.cmd[k] = v
	}
	return n
}

func (e entM) expired(now int64) bool { return !e.never && now > e.exp }

func (m cacheM) snapshot() string {
	var toks []int
	for _, t := range m.cache {
		toks = append(toks, t)
	}
	sort.Ints(toks)
	return fmt.Sprint(toks)
}

func (m cacheM) dump() string {
	var a, b []string
	for id, t := range m.cache {
		e := m.ents[t]
		if e.never {
			a = append(a, id+"=never")
		} else {
			a = append(a, fmt.Sprintf("%s=%d", id, e.exp))
		}
	}
	for k, id := range m.cmd {
		b = append(b, k+"->"+id)
	}
	sort.Strings(a)
	sort.Strings(b)
	return strings.Join(a, ",") + "|" + strings.Join(b, ",")
}

// step is the sequential specification of the session cache.
func step(st, input, output interface{}) (bool, interface{}) {
	m, in, out := st.(cacheM), input.(opIn), output.(opOut)
	lookup := func(id string) int {
		t, ok := m.cache[id]
		if !ok || m.ents[t].expired(in.Now) {
			return -1
		}
		return t
	}
	switch in.Op {
	case "store":
		n := m.clone()
		n.ents[in.Tok] = entM{exp: in.Exp, never: in.Never, lease: in.Lease}
		n.cache[in.ID] = in.Tok
		return true, n
	case "lookup":
		return out.Tok == lookup(in.ID), m
	case "lookupNE":
		t, ok := m.cache[in.ID]
		if ok && m.ents[t].expired(in.Now) {
			// noticing that a session has expired drops it and every route to it, as invalidation does
			// (until fix 1f91d9f cedar left the routes behind here, and this model had been written to match)
			n := m.clone()
			delete(n.cache, in.ID)
			for k, id := range n.cmd {
				if id == in.ID {
					delete(n.cmd, k)
				}
			}
			return out.Tok == -1, n
		}
		return out.Tok == lookup(in.ID), m
	case "lookupCmd":
		id, ok := m.cmd[in.Key]
		if !ok {
			return out.Tok == -1, m
		}
		return out.Tok == lookup(id), m
	case "mapCmd":
		n := m.clone()
		n.cmd[in.Key] = in.ID
		return true, n
	case "invalidate":
		_, ok := m.cache[in.ID]
		if !ok {
			return !out.B, m
		}
		n := m.clone()
		delete(n.cache, in.ID)
		for k, id := range n.cmd {
			if id == in.ID {
				delete(n.cmd, k)
			}
		}
		return out.B, n
	case "invExp":
		n := m.clone()
		c := 0
		for id, t := range n.cache {
			if n.ents[t].expired(in.Now) {
				delete(n.cache, id)
				c++
			}
		}
		for k, id := range n.cmd {
			if _, ok := n.cache[id]; !ok {
				delete(n.cmd, k)
			}
		}
		return out.N == c, n
	case "size":
		return out.N == len(m.cache), m
	case "snapshot":
		return out.L == m.snapshot(), m
	case "dump":
		return out.L == m.dump(), m
	case "clear":
		n := m.clone()
		n.cache, n.cmd = map[string]int{}, map[string]string{}
		return true, n
	case "renew":
		e := m.ents[in.Tok]
		if e.lease == 0 {
			return true, m
		}
		n := m.clone()
		e.exp, e.never = in.Now+e.lease, false
		n.ents[in.Tok] = e
		return true, n
	case "expired":
		return out.B == m.ents[in.Tok].expired(in.Now), m
	case "expiration":
		e := m.ents[in.Tok]
		if e.never {
			return out.B, m
		}
		return !out.B && out.T == e.exp, m
	}
	return false, m
}

var cacheModel = porcupine.Model{
	Init:  func() interface{} { return cacheM{ents: map[int]entM{}, cache: map[string]int{}, cmd: map[string]string{}} },
	Step:  step,
	Equal: func(a, b interface{}) bool { return reflect.DeepEqual(a, b) },
	DescribeOperation: func(input, output interface{}) string {
		return fmt.Sprintf("%+v -> %+v", input, output)
	},
}

type cacheWorld struct {
	s     *kernel.Sim
	c     *security.SessionCache
	ents  []*security.SessionEntry
	hist  []porcupine.Operation
	clock int64
}

func (w *cacheWorld) tokOf(e *security.SessionEntry, ok bool) int {
	if !ok || e == nil {
		return -1
	}
	for t, x := range w.ents { // (no Go map in state shared by tasks: see kernel.counter)
		if x == e {
			return t
		}
	}
	return -2 // an entry nobody stored
}

func splitKey(k string) (tag, addr, cmd string) {
	p := strings.SplitN(k, "|", 3)
	return p[0], p[1], p[2]
}

// parseDump turns DebugDump's text into the model's canonical form.
func (w *cacheWorld) parseDump(d string) string {
	var a, b []string
	sect := ""
	for _, ln := range strings.Split(d, "\n") {
		switch {
		case ln == "sessions:" || ln == "command_map:":
			sect = ln
		case strings.HasPrefix(ln, "- ") && sect == "sessions:":
			id, exp := "", ""
			for _, f := range strings.Fields(ln[2:]) {
				if strings.HasPrefix(f, "id=") {
					id = f[3:]
				}
				if strings.HasPrefix(f, "exp=") {
					exp = f[4:]
				}
			}
			if exp != "never" {
				if tm, err := time.Parse(time.RFC3339Nano, exp); err == nil {
					exp = fmt.Sprint(int64(tm.Sub(w.s.Start)))
				}
			}
			a = append(a, id+"="+exp)
		case strings.HasPrefix(ln, "- ") && sect == "command_map:":
			p := strings.SplitN(ln[2:], " -> ", 2)
			if len(p) == 2 {
				// {tag,addr,<cmd>} or {addr,<cmd>}
				k := strings.Trim(p[0], "{}")
				f := strings.Split(k, ",")
				key := ""
				if len(f) == 3 {
					key = f[0] + "|" + f[1] + "|" + strings.Trim(f[2], "<>")
				} else if len(f) == 2 {
					key = "|" + f[0] + "|" + strings.Trim(f[1], "<>")
				}
				b = append(b, key+"->"+p[1])
			}
		}
	}
	sort.Strings(a)
	sort.Strings(b)
	return strings.Join(a, ",") + "|" + strings.Join(b, ",")
}

// do executes one operation against the real cache and records it.
func (w *cacheWorld) do(client int, in opIn) opOut {
	in.Now = int64(time.Since(w.s.Start))
	w.clock++
	call := w.clock
	var out opOut
	switch in.Op {
	case "store":
		var exp time.Time
		if !in.Never {
			exp = w.s.Start.Add(time.Duration(in.Exp))
		}
		e := security.NewSessionEntry(in.ID, "addr", &security.KeyInfo{Data: []byte{byte(in.Tok)}, Protocol: "AESGCM"}, nil, exp, time.Duration(in.Lease), "")
		w.ents[in.Tok] = e
		w.c.Store(e)
	case "lookup":
		out.Tok = w.tokOf(w.c.Lookup(in.ID))
	case "lookupNE":
		out.Tok = w.tokOf(w.c.LookupNonExpired(in.ID))
	case "lookupCmd":
		tag, addr, cmd := splitKey(in.Key)
		out.Tok = w.tokOf(w.c.LookupByCommand(tag, addr, cmd))
	case "mapCmd":
		tag, addr, cmd := splitKey(in.Key)
		w.c.MapCommand(tag, addr, cmd, in.ID)
	case "invalidate":
		out.B = w.c.Invalidate(in.ID)
	case "invExp":
		out.N = w.c.InvalidateExpired()
	case "size":
		out.N = w.c.Size()
	case "snapshot":
		var toks []int
		for _, e := range w.c.Snapshot() {
			toks = append(toks, w.tokOf(e, true))
		}
		sort.Ints(toks)
		out.L = fmt.Sprint(toks)
	case "dump":
		out.L = w.parseDump(w.c.DebugDump())
	case "clear":
		w.c.Clear()
	case "renew":
		w.ents[in.Tok].RenewLease()
	case "expired":
		out.B = w.ents[in.Tok].IsExpired()
	case "expiration":
		x := w.ents[in.Tok].Expiration()
		if x.IsZero() {
			out.B = true
		} else {
			out.T = int64(x.Sub(w.s.Start))
		}
	}
	w.clock++
	w.hist = append(w.hist, porcupine.Operation{ClientId: client, Input: in, Call: call, Output: out, Return: w.clock})
	return out
}

func runCache(s *kernel.Sim, c *scen.Case) {
	t := s.T
	y := newYctl(s)
	defer removeYield()
	w := &cacheWorld{s: s, c: security.NewSessionCache(), ents: make([]*security.SessionEntry, 64)}
	ids := []string{"s1", "s2", "s3"}[:2+t.Choose("nids", 2)]
	keys := []string{"|a|1", "t|a|1", "|a|2"}[:1+t.Choose("nkeys", 3)]
	ntasks := 2 + t.Choose("ntasks", 4)
	nextTok := 0
	ms := int64(time.Millisecond)
	for ti := 0; ti < ntasks; ti++ {
		ti := ti
		nops := 3 + t.Choose("nops", 5)
		s.Go(fmt.Sprintf("t%d", ti), func() {
			var mine []int // tokens of entries this task holds a pointer to
			for k := 0; k < nops && !s.Ended(); k++ {
				in := opIn{Op: kernel.Pick(t, "op", "store", "store", "lookup", "lookup", "lookupNE", "lookupCmd", "mapCmd", "invalidate", "invExp", "size", "snapshot", "dump", "renew", "renew", "expired", "expiration", "clear")}
				in.ID = ids[t.Choose("id", len(ids))]
				in.Key = keys[t.Choose("key", len(keys))]
				switch in.Op {
				case "store":
					if nextTok >= 60 {
						continue
					}
					in.Tok = nextTok
					nextTok++
					now := int64(time.Since(s.Start))
					switch t.Choose("exp", 4) {
					case 0:
						in.Never = true
					case 1:
						in.Exp = now + 40*ms + ms/2
					case 2:
						in.Exp = now + 150*ms + ms/2
					case 3:
						in.Exp = now - 10*ms - ms/2 // born expired
					}
					in.Lease = kernel.Pick(t, "lease", int64(0), 60*ms+ms/4, 200*ms+ms/4)
					mine = append(mine, in.Tok)
				case "renew", "expired", "expiration":
					if len(mine) == 0 {
						continue
					}
					in.Tok = mine[t.Choose("mine", len(mine))]
				case "clear":
					if !t.Chance("really-clear", 1, 4) {
						continue
					}
				}
				out := w.do(ti, in)
				if (in.Op == "lookup" || in.Op == "lookupNE" || in.Op == "lookupCmd") && out.Tok >= 0 {
					mine = append(mine, out.Tok)
				}
				if t.Chance("sleep", 1, 3) {
					s.Sleep(fmt.Sprintf("t%d", ti), time.Duration(kernel.Pick(t, "sleepms", 15, 50, 130))*time.Millisecond)
				}
			}
		})
	}
	y.off = false
	s.Run()
	y.off = true
	if s.Overrun {
		return
	}
	if !s.Quiescent {
		for _, tk := range s.Tasks() {
			if tk.Panic != nil {
				s.Violate("panic", "cache", fmt.Sprintf("%s: %v\n%s", tk.Name, tk.Panic, tk.Stack))
				return
			}
		}
	} else if len(s.BlockedAt) > 0 {
		s.Violate("deadlock", "cache", fmt.Sprintf("cache operations blocked for ever: %v", s.BlockedAt))
		return
	}
	// quiescence: what every kind of lookup says about every id, sequentially
	for _, id := range ids {
		w.do(99, opIn{Op: "lookup", ID: id})
		w.do(99, opIn{Op: "lookupNE", ID: id})
	}
	for _, k := range keys {
		w.do(99, opIn{Op: "lookupCmd", Key: k})
	}
	w.do(99, opIn{Op: "size"})
	w.do(99, opIn{Op: "snapshot"})
	w.do(99, opIn{Op: "dump"})
	hist := w.hist
	s.PostRun = func() {
		res, info := porcupine.CheckOperationsVerbose(cacheModel, hist, 20*time.Second)
		switch res {
		case porcupine.Illegal:
			s.Violate("cache-history-not-linearizable", "cache", "no sequential order of these cache operations explains their results:\n"+describe(hist, info))
		case porcupine.Unknown:
			s.Probes["linearizability-check-timeout"]++
		default:
			s.Probes["linearizable-histories"]++
		}
	}
}

func describe(hist []porcupine.Operation, info porcupine.LinearizationInfo) string {
	var b strings.Builder
	for _, op := range hist {
		fmt.Fprintf(&b, "  client %d [%d,%d] %+v -> %+v\n", op.ClientId, op.Call, op.Return, op.Input, op.Output)
	}
	return b.String()
}

// ---------------------------------------------------------------- handshake workload

const echoCmd = 60021

type hsWorld struct {
	s        *kernel.Sim
	net      *simnet.Net
	bg       context.Context
	served   []string // payloads the server's handler received
	freshSids []string // session ids the server gave to full (non-resumed) handshakes
	srvErrs  []string
	stop     bool
	nconn    int
	srvCache *security.SessionCache
	cliCache *security.SessionCache
}

func runHandshakes(s *kernel.Sim, c *scen.Case) {
	hs.Init()
	defer func() { verifhook.DialFunc = nil }()
	t := s.T
	w := &hsWorld{s: s, bg: context.Background(), srvCache: security.NewSessionCache(), cliCache: security.NewSessionCache()}
	w.net = simnet.New(s, simnet.Config{MaxLatency: time.Duration(t.Choose("lat", 3)) * 5 * time.Millisecond})
	s.Quantum, s.IdleMax = 5*time.Second, 2
	verifhook.DialFunc = func(ctx context.Context, network, addr string) (net.Conn, error) {
		ep, err := w.net.Dial(ctx, "10.0.0.1", addr)
		if err != nil {
			return nil, err
		}
		return ep, nil
	}
	shape := kernel.Pick(t, "shape", "claimtobe", "token", "noauth", "ssl")
	tw := hs.NewTokenWorld(t)
	var methods []security.AuthMethod
	alevel := security.SecurityRequired
	switch shape {
	case "claimtobe":
		methods = []security.AuthMethod{security.AuthClaimToBe}
	case "token":
		methods = []security.AuthMethod{security.AuthToken}
	case "noauth":
		alevel = security.SecurityNever
	case "ssl":
		methods = []security.AuthMethod{security.AuthSSL}
	}
	var sw *hs.SSLWorld
	if shape == "ssl" {
		var err error
		if sw, err = hs.NewSSLWorld(); err != nil {
			s.Violate("harness", "ssl-world", err.Error())
			return
		}
		defer sw.Close()
	}
	// ONE client-side security configuration shared by every client task
	cliCfg := hs.Cfg(alevel, security.SecurityRequired, methods, hs.AES, echoCmd)
	cliCfg.SessionCache = w.cliCache
	cliCfg.TrustDomain = tw.Issuer
	cliCfg.Token = tw.Token(hs.Now()-10, hs.Now()+36000)
	// ONE server with one configuration and one cache
	srvCfg := hs.Cfg(alevel, security.SecurityRequired, methods, hs.AES, security.NoCommand)
	tw.ServerToken(srvCfg)
	srvCfg.SessionCache = w.srvCache
	if sw != nil {
		sw.Client(cliCfg)
		sw.Server(srvCfg)
	}
	srv := server.New(srvCfg)
	if t.Chance("per-command-config", 1, 2) {
		// the application keeps one policy object per command and hands the same object to
		// every connection (the natural use of the hook)
		perCmd := *srvCfg
		srv.SecurityConfigForCommand = func(cmd int) *security.SecurityConfig {
			if cmd == echoCmd {
				return &perCmd
			}
			return nil
		}
		shape += "/percmd"
	}
	srv.Handle(echoCmd, func(hctx context.Context, c *server.Conn) error {
		m := message.NewMessageFromStream(c.Stream)
		b, err := m.GetBytes(hctx, 12)
		if err != nil {
			return err
		}
		w.served = append(w.served, string(b))
		if c.Negotiation != nil && !c.Negotiation.SessionResumed {
			w.freshSids = append(w.freshSids, c.Negotiation.SessionId)
		}
		r := message.NewMessageForStream(c.Stream)
		if err := r.PutBytes(hctx, append([]byte("ok:"), b...)); err != nil {
			return err
		}
		return r.FinishMessage(hctx)
	})
	ln, err := w.net.Listen("10.0.0.2:9618")
	if err != nil {
		s.Violate("harness", "listen", err.Error())
		return
	}
	acceptor := func() {
		for !w.stop {
			conn, err := ln.Accept()
			if err != nil {
				return
			}
			w.nconn++
			n := w.nconn
			s.Go(fmt.Sprintf("srv.conn%02d", n), func() {
				if err := srv.ServeConn(w.bg, conn); err != nil {
					w.srvErrs = append(w.srvErrs, fmt.Sprintf("conn%d: %v", n, err))
				}
			})
		}
	}
	type result struct {
		name, payload, echo string
		err                 error
		enc                 bool
	}
	var results []*result
	connect := func(name string) {
		r := &result{name: name, payload: fmt.Sprintf("%-12s", name)[:12]}
		results = append(results, r)
		cl, err := client.ConnectAndAuthenticateWithConfig(w.bg, &client.ClientConfig{Address: "10.0.0.2:9618", Security: cliCfg})
		if err != nil {
			r.err = fmt.Errorf("connect: %w", err)
			return
		}
		defer cl.Close()
		st := cl.GetStream()
		r.enc = st.IsEncrypted()
		m := message.NewMessageForStream(st)
		if err := m.PutBytes(w.bg, []byte(r.payload)); err != nil {
			r.err = fmt.Errorf("send: %w", err)
			return
		}
		if err := m.FinishMessage(w.bg); err != nil {
			r.err = fmt.Errorf("send: %w", err)
			return
		}
		in := message.NewMessageFromStream(st)
		b, err := in.GetBytes(w.bg, 15)
		if err != nil {
			r.err = fmt.Errorf("receive: %w", err)
			return
		}
		r.echo = string(b)
	}
	y := newYctl(s)
	defer removeYield()
	s.Go("acceptor", acceptor)
	if t.Chance("pre-establish", 1, 2) {
		// a first connection alone, so that the concurrent ones resume one shared session
		s.Go("c00", func() { connect("c00") })
		s.Run()
		s.Go("acceptor", acceptor)
	}
	nclients := 2 + t.Choose("nclients", 4)
	for i := 1; i <= nclients; i++ {
		name := fmt.Sprintf("c%02d", i)
		twice := t.Chance("twice", 1, 3)
		s.Go(name, func() {
			connect(name)
			if twice {
				connect(name + "b")
			}
		})
	}
	if t.Chance("maintenance", 2, 3) {
		rounds := 2 + t.Choose("mrounds", 6)
		s.Go("maint", func() {
			for i := 0; i < rounds && !s.Ended(); i++ {
				cache := w.cliCache
				if t.Chance("which-cache", 1, 2) {
					cache = w.srvCache
				}
				switch t.Choose("mop", 5) {
				case 0:
					cache.InvalidateExpired()
				case 1:
					_ = cache.DebugDump()
				case 2:
					for _, e := range cache.Snapshot() {
						_ = e.IsExpired()
						_ = e.Expiration()
					}
				case 3:
					_ = cache.Size()
				case 4:
					for _, e := range cache.Snapshot() {
						e.RenewLease()
					}
				}
				s.Sleep("maint", time.Duration(1+t.Choose("mms", 8))*time.Millisecond)
			}
		})
	}
	y.off = false
	s.Run()
	w.stop = true
	y.off = true
	ln.Close()
	if s.Overrun {
		return
	}
	for _, tk := range s.Tasks() {
		if tk.Panic != nil {
			s.Violate("panic", "handshakes/"+shape, fmt.Sprintf("%s: %v\n%s", tk.Name, tk.Panic, tk.Stack))
			return
		}
	}
	// every full handshake got a session id of its own (two sessions under one id would
	// overwrite each other in the shared cache)
	seenSid := map[string]bool{}
	for _, id := range w.freshSids {
		if seenSid[id] {
			s.Violate("duplicate-session-id", shape, fmt.Sprintf("two concurrent full handshakes were given the same session id %q", id))
			return
		}
		seenSid[id] = true
	}
	// fault-free network, long-lived sessions: every connection must have worked, in isolation
	served := map[string]int{}
	for _, p := range w.served {
		served[p]++
	}
	for _, r := range results {
		switch {
		case r.err != nil:
			s.Violate("concurrent-handshake-failed", shape, fmt.Sprintf("%s (one of %d concurrent clients sharing one configuration, fault-free network): %v; server side: %v", r.name, len(results), r.err, w.srvErrs))
			return
		case r.echo != "ok:"+r.payload:
			s.Violate("connection-got-anothers-data", shape, fmt.Sprintf("%s sent %q and received %q", r.name, r.payload, r.echo))
			return
		case !r.enc:
			s.Violate("encryption-not-in-effect", shape, r.name+": encryption was REQUIRED on both sides")
			return
		case served[r.payload] != 1:
			s.Violate("request-served-wrong-number-of-times", shape, fmt.Sprintf("%s: payload served %d times", r.name, served[r.payload]))
			return
		}
	}
	if len(s.BlockedAt) > 0 && s.Quiescent {
		for _, k := range s.BlockedAt {
			if strings.HasPrefix(k, "lock:") {
				s.Violate("deadlock", "handshakes/"+shape, fmt.Sprintf("blocked for ever: %v", s.BlockedAt))
				return
			}
		}
	}
}

// ---------------------------------------------------------------- one stream, two goroutines per end

func runStream(s *kernel.Sim, c *scen.Case) {
	hs.Init()
	t := s.T
	bg := context.Background()
	ncfg := simnet.DrawConfig(t)
	if ncfg.Window > 0 && ncfg.Window < 512 {
		ncfg.Window = 512 // (byte-at-a-time windows make a run cost 10^5 steps without adding interleavings of interest here)
	}
	net0 := simnet.New(s, ncfg)
	s.Quantum, s.IdleMax = 5*time.Second, 2
	pr := hs.NewPair(net0, 1)
	enc := security.SecurityRequired
	if t.Chance("plain", 1, 4) {
		enc = security.SecurityNever
	}
	var e1, e2 error
	s.Go("hs-client", func() {
		cfg := hs.Cfg(security.SecurityNever, enc, nil, hs.AES, echoCmd)
		cfg.SessionCache = security.NewSessionCache()
		_, e1 = security.NewAuthenticator(cfg, pr.CS).ClientHandshake(bg)
	})
	s.Go("hs-server", func() {
		cfg := hs.Cfg(security.SecurityNever, enc, nil, hs.AES, security.NoCommand)
		cfg.SessionCache = security.NewSessionCache()
		_, e2 = security.NewAuthenticator(cfg, pr.SS).ServerHandshake(bg)
	})
	s.Run()
	if e1 != nil || e2 != nil {
		s.Violate("baseline-failed", "stream", fmt.Sprintf("handshake: %v / %v", e1, e2))
		return
	}
	y := newYctl(s)
	defer removeYield()
	type dir struct {
		sent, got []string
		serr, rerr error
	}
	mk := func(name string, n int, st *stream.Stream, d *dir, typed bool) {
		s.Go(name+".w", func() {
			for i := 0; i < n && !s.Ended(); i++ {
				size := kernel.Pick(t, "size", 1, 30, 900, 5000, 20000)
				msg := []byte(fmt.Sprintf("%s#%03d:", name, i))
				for len(msg) < size {
					msg = append(msg, byte('a'+len(msg)%26))
				}
				var err error
				if typed {
					m := message.NewMessageForStream(st)
					if err = m.PutBytes(bg, msg); err == nil {
						err = m.FinishMessage(bg)
					}
				} else {
					err = st.SendMessage(bg, msg)
				}
				if err != nil {
					if !s.Ended() {
						d.serr = err
					}
					return
				}
				d.sent = append(d.sent, string(msg))
			}
		})
	}
	rd := func(name string, n int, st *stream.Stream, d *dir) {
		s.Go(name+".r", func() {
			for i := 0; i < n && !s.Ended(); i++ {
				b, err := st.ReceiveCompleteMessage(bg)
				if err != nil {
					if !s.Ended() {
						d.rerr = err
					}
					return
				}
				d.got = append(d.got, string(b))
			}
		})
	}
	var c2s, s2c dir
	nc, ns := 1+t.Choose("nc", 5), 1+t.Choose("ns", 5)
	typed := t.Chance("typed", 1, 2)
	mk("cli", nc, pr.CS, &c2s, typed)
	rd("srv", nc, pr.SS, &c2s)
	mk("srv", ns, pr.SS, &s2c, typed)
	rd("cli", ns, pr.CS, &s2c)
	y.off = false
	s.Run()
	y.off = true
	if s.Overrun {
		return
	}
	for _, tk := range s.Tasks() {
		if tk.Panic != nil {
			s.Violate("panic", "stream", fmt.Sprintf("%s: %v\n%s", tk.Name, tk.Panic, tk.Stack))
			return
		}
	}
	for name, d := range map[string]*dir{"client->server": &c2s, "server->client": &s2c} {
		want := nc
		if name == "server->client" {
			want = ns
		}
		switch {
		case d.serr != nil || d.rerr != nil:
			s.Violate("full-duplex-use-failed", name, fmt.Sprintf("one goroutine wrote while another read on each end; send error %v, receive error %v", d.serr, d.rerr))
			return
		case len(d.sent) != want || !reflect.DeepEqual(d.sent, d.got):
			s.Violate("full-duplex-use-corrupted-data", name, fmt.Sprintf("sent %d messages, received %d; first difference at %d", len(d.sent), len(d.got), firstDiff(d.sent, d.got)))
			return
		}
	}
}

func firstDiff(a, b []string) int {
	for i := range a {
		if i >= len(b) || a[i] != b[i] {
			return i
		}
	}
	return len(a)
}


// ---------------------------------------------------------------- ccb.Listener: many writers, one reader on the broker stream

func runListener(s *kernel.Sim, c *scen.Case) {
	hs.Init()
	t := s.T
	bg := context.Background()
	net0 := simnet.New(s, simnet.Config{MaxLatency: time.Duration(t.Choose("lat", 3)) * 4 * time.Millisecond, Segment: t.Chance("seg", 1, 2), ShortReads: t.Chance("short", 1, 2)})
	s.Quantum, s.IdleMax = 40*time.Second, 2
	brokerLn, err1 := net0.Listen("10.0.1.1:9618")
	reqLn, err2 := net0.Listen("10.0.9.9:7000")
	if err1 != nil || err2 != nil {
		s.Violate("harness", "listen", fmt.Sprint(err1, err2))
		return
	}
	enc := security.SecurityRequired
	if t.Chance("plain", 1, 4) {
		enc = security.SecurityNever
	}
	lcfg := hs.Cfg(security.SecurityNever, enc, nil, hs.AES, 0)
	lcfg.SessionCache = security.NewSessionCache()
	bcfg := hs.Cfg(security.SecurityNever, enc, nil, hs.AES, security.NoCommand)
	bcfg.SessionCache = security.NewSessionCache()
	ctx, cancel := context.WithCancel(bg)
	defer cancel()
	var handed []string
	l := ccb.NewListener(ccb.ListenerConfig{
		BrokerAddr: "10.0.1.1:9618", Security: lcfg, Name: "daemon",
		HeartbeatInterval: 30 * time.Second, ReconnectInterval: 60 * time.Second,
		Handler: func(conn net.Conn, meta ccb.InboundMeta) {
			handed = append(handed, conn.RemoteAddr().String())
			conn.Close()
		},
		Dial: func(dctx context.Context, addr string) (net.Conn, error) {
			a := strings.Trim(addr, "<>")
			if i := strings.Index(a, "?"); i >= 0 {
				a = a[:i]
			}
			ep, err := net0.Dial(dctx, "10.0.0.1", a)
			if err != nil {
				return nil, err
			}
			return ep, nil
		},
	})
	n := 2 + t.Choose("nreq", 5)
	type res struct {
		req, claim string
		ok         bool
	}
	var results []res
	var hellos []string
	alive := 0
	var brokerErr error
	stop := false
	y := newYctl(s)
	defer removeYield()
	s.Go("listener", func() { _ = l.Run(ctx) })
	s.Go("requester", func() {
		k := 0
		for !stop {
			conn, err := reqLn.Accept()
			if err != nil {
				return
			}
			k++
			s.Go(fmt.Sprintf("requester.conn%02d", k), func() {
				defer conn.Close()
				st := stream.NewStream(conn)
				m := message.NewMessageFromStream(st)
				cmd, err := m.GetInt(bg)
				if err != nil {
					return
				}
				ad, err := ccb.ReadReverseConnectAd(bg, m, cmd)
				if err != nil {
					return
				}
				hellos = append(hellos, ccb.AdString(ad, ccb.AttrClaimID))
			})
		}
	})
	s.Go("broker", func() {
		conn, err := brokerLn.Accept()
		if err != nil {
			return
		}
		st := stream.NewStream(conn)
		if _, err := security.NewAuthenticator(bcfg, st).ServerHandshake(bg); err != nil {
			brokerErr = fmt.Errorf("broker handshake: %w", err)
			return
		}
		if _, err := ccb.ReadControlAd(bg, st); err != nil {
			brokerErr = fmt.Errorf("read registration: %w", err)
			return
		}
		if err := ccb.WriteControlAd(bg, st, ccb.NewAd(map[string]any{ccb.AttrCCBID: "10.0.1.1:9618#7", ccb.AttrClaimID: "cookie7"})); err != nil {
			brokerErr = err
			return
		}
		s.Go("broker.reader", func() {
			for !stop {
				ad, err := ccb.ReadControlAd(bg, st)
				if err != nil {
					if !stop && !s.Ended() {
						brokerErr = fmt.Errorf("broker could not read what the listener wrote: %w", err)
					}
					return
				}
				if cmd, _ := ccb.AdInt(ad, ccb.AttrCommand); int(cmd) == ccb.CommandAlive {
					alive++
					continue
				}
				ok, _ := ccb.AdBool(ad, ccb.AttrResult)
				results = append(results, res{ccb.AdString(ad, ccb.AttrRequestID), ccb.AdString(ad, ccb.AttrClaimID), ok})
			}
		})
		for i := 0; i < n && !s.Ended(); i++ {
			ad := ccb.NewAd(map[string]any{ccb.AttrCommand: ccb.CommandRequest, ccb.AttrMyAddress: "<10.0.9.9:7000>", ccb.AttrClaimID: fmt.Sprintf("connect-%02d", i), ccb.AttrRequestID: fmt.Sprintf("req-%02d", i)})
			if err := ccb.WriteControlAd(bg, st, ad); err != nil {
				brokerErr = err
				return
			}
			switch t.Choose("gap", 4) {
			case 1:
				s.Sleep("broker", 3*time.Millisecond)
			case 2:
				s.Sleep("broker", 31*time.Second) // a heartbeat falls among the results
			}
		}
		// wait for the answers, then hang up
		for i := 0; i < 200 && len(results) < n && brokerErr == nil && !s.Ended(); i++ {
			s.Sleep("broker-wait", 500*time.Millisecond)
		}
		stop = true
		cancel()
		conn.Close()
		reqLn.Close()
		brokerLn.Close()
	})
	y.off = false
	s.Run()
	y.off = true
	if s.Overrun {
		return
	}
	for _, tk := range s.Tasks() {
		if tk.Panic != nil {
			s.Violate("panic", "listener", fmt.Sprintf("%s: %v\n%s", tk.Name, tk.Panic, tk.Stack))
			return
		}
	}
	if brokerErr != nil {
		s.Violate("broker-stream-disturbed", "listener", brokerErr.Error())
		return
	}
	seen := map[string]int{}
	for _, r := range results {
		seen[r.req]++
		if !r.ok || r.claim != "connect-"+strings.TrimPrefix(r.req, "req-") {
			s.Violate("broker-stream-disturbed", "listener/result", fmt.Sprintf("result for %s: ok=%v claim=%q", r.req, r.ok, r.claim))
			return
		}
	}
	for i := 0; i < n; i++ {
		if seen[fmt.Sprintf("req-%02d", i)] != 1 {
			s.Violate("broker-stream-disturbed", "listener/count", fmt.Sprintf("request %d answered %d times (%d requests, %d results, %d hellos, %d heartbeats, %d handed over)", i, seen[fmt.Sprintf("req-%02d", i)], n, len(results), len(hellos), alive, len(handed)))
			return
		}
	}
	if len(hellos) != n || len(handed) != n {
		s.Violate("broker-stream-disturbed", "listener/hellos", fmt.Sprintf("%d requests, %d reverse-connect hellos, %d connections handed to the daemon", n, len(hellos), len(handed)))
	}
	if alive > 0 {
		s.Probe("heartbeat-among-results")
	}
}

// ---------------------------------------------------------------- catalogue

func run(s *kernel.Sim, c *scen.Case) {
	var p params
	c.P(&p)
	switch p.Kind {
	case "cache":
		runCache(s, c)
	case "handshakes":
		runHandshakes(s, c)
	case "stream":
		runStream(s, c)
	case "listener":
		runListener(s, c)
	}
}

func gen(kind string) func(g *scen.Gen) {
	return func(g *scen.Gen) {
		for i := uint64(0); ; i++ {
			if !g.Emit(scen.Case{Params: scen.Params(params{Kind: kind}), Seed: g.Seed*1000003 + i}) {
				return
			}
		}
	}
}

var scenarios = []*scen.Scenario{
	{Name: "cache", Weight: 5, Gen: gen("cache"), Run: run},
	{Name: "handshakes", Weight: 3, Gen: gen("handshakes"), Run: run},
	{Name: "stream", Weight: 2, Gen: gen("stream"), Run: run},
	{Name: "listener", Weight: 2, Gen: gen("listener"), Run: run, ResidualNondeterminism: "ccb.Listener starts its own goroutines (serve loop, heartbeat ticker, one per request, one per hand-over) and selects over a ticker and its context; the order in which the Go runtime lets several of them reach their first simulator primitive after a virtual-time step is not the simulator's decision (observed: 1 diverging event log in 40 processes of one seed)"},
}

func TestScenario(t *testing.T) { scen.Main(t, "C17", scenarios) }
