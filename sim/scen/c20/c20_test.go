// C20 — a CCB dial returns only the connection that presents its fresh connect
// id. The real ccb.Dial (standard and proxied mode, 1-3 brokers, stagger timer on
// the virtual clock) runs on the simulated network against scripted brokers and
// legitimate / rogue reverse connectors whose arrival orders are scheduler
// decisions; every simulated connection knows who opened it.
package c20

import (
	"context"
	"fmt"
	"net"
	"strings"
	"testing"
	"time"

	"cedarsim/hs"
	"cedarsim/kernel"
	"cedarsim/scen"
	"cedarsim/simnet"

	"github.com/PelicanPlatform/classad/classad"
	"github.com/bbockelm/cedar/addresses"
	"github.com/bbockelm/cedar/ccb"
	"github.com/bbockelm/cedar/message"
	"github.com/bbockelm/cedar/security"
	"github.com/bbockelm/cedar/stream"
	"github.com/bbockelm/cedar/verifhook"
)

type params struct {
	Kind string `json:"kind"`
}

type brokerPlan struct {
	addr    string
	dead    bool   // nobody listens
	reply   string // success | failure | none
	connect string // legit | none | wrongid | stale
	delayMs int    // virtual delay before acting on a request
	proxyID string // proxied mode: right | wrong | none
}

type request struct {
	broker   int
	connect  string // the connect id the requester generated for this attempt
	myAddr   string
	dialNo   int
	proxied  bool
	received time.Duration
}

type connector struct {
	who       string // legit:<id> | rogue:<kind>
	presented string
	ep        *simnet.Endpoint
	dialNo    int
}

type world struct {
	s          *kernel.Sim
	t          *kernel.Tape
	net        *simnet.Net
	bg         context.Context
	requests   []*request
	connectors []*connector
	dialNo     int
	stop       bool
	lnAddrs    []string // reverse listeners opened by the requester (per dial)
}

func brokerCfg() *security.SecurityConfig {
	cfg := hs.Cfg(security.SecurityNever, security.SecurityOptional, nil, hs.AES, security.NoCommand)
	cfg.RemoteVersion = "$CondorVersion: 25.13.0 2026-01-01 BuildID: 1 $"
	return cfg
}

// reverseConnect opens a connection to the requester's listener and presents a hello.
func (w *world) reverseConnect(who, addr, id string, kind string, dialNo int) {
	ep, err := w.net.Dial(w.bg, "10.0.9.9", addr)
	if err != nil {
		w.s.Probe("reverse-connect-refused")
		return
	}
	ep.Owner = who
	c := &connector{who: who, presented: id, ep: ep, dialNo: dialNo}
	w.connectors = append(w.connectors, c)
	st := stream.NewStream(ep)
	switch kind {
	case "hello":
		_ = ccb.WriteReverseConnect(w.bg, st, id, "req-1", "<10.0.9.9:1>")
	case "noid", "intid":
		c.presented = "(" + kind + ")"
		w.helloWithoutID(st, kind)
	case "garbage":
		_, _ = ep.Write([]byte("\x01\x00\x00\x00\x10GARBAGE-NOT-CEDAR"))
	case "close":
		ep.Close()
		return
	case "halfclose":
		// says nothing and shuts down its sending side only: the dialer reads a clean end-of-file
		// from a connection that is still established
		_ = ep.CloseWrite()
	case "halfclose-partial":
		_, _ = ep.Write([]byte{1, 0, 0})
		_ = ep.CloseWrite()
	case "silent":
	}
	// hold the connection open and see what the dialer does with it
	buf := make([]byte, 64)
	for {
		if _, err := ep.Read(buf); err != nil {
			return
		}
	}
}

// helloWithoutID writes a well-framed reverse-connect hello whose ad has no ClaimId ("noid"),
// an empty one ("emptyid") or one that is not a string ("intid").
func (w *world) helloWithoutID(st *stream.Stream, kind string) {
	ad := classad.New()
	_ = ad.Set(ccb.AttrRequestID, "req-1")
	_ = ad.Set(ccb.AttrMyAddress, "<10.0.9.9:1>")
	switch kind {
	case "intid":
		_ = ad.Set(ccb.AttrClaimID, 7)
	case "emptyid":
		_ = ad.Set(ccb.AttrClaimID, "")
	}
	m := message.NewMessageForStream(st)
	_ = m.PutInt(w.bg, ccb.CommandReverseConnect)
	_ = m.PutClassAdWithOptions(w.bg, ad, &message.PutClassAdConfig{Options: message.PutClassAdIncludePrivate})
	_ = m.FinishMessage(w.bg)
}

func (w *world) runBroker(i int, bp *brokerPlan, ln *simnet.Listener) {
	n := 0
	for !w.stop {
		conn, err := ln.Accept()
		if err != nil {
			return
		}
		n++
		w.s.Go(fmt.Sprintf("broker%d.conn%d", i, n), func() {
			st := stream.NewStream(conn)
			if _, err := security.NewAuthenticator(brokerCfg(), st).ServerHandshake(w.bg); err != nil {
				conn.Close()
				return
			}
			ad, err := ccb.ReadControlAd(w.bg, st)
			if err != nil {
				conn.Close()
				return
			}
			rq := &request{broker: i, connect: ccb.AdString(ad, ccb.AttrClaimID), myAddr: strings.Trim(ccb.AdString(ad, ccb.AttrMyAddress), "<>"), dialNo: w.dialNo, received: w.s.Now()}
			if b, _ := ccb.AdBool(ad, ccb.AttrCCBStreamingRequired); b {
				rq.proxied = true
			}
			w.requests = append(w.requests, rq)
			if bp.delayMs > 0 {
				w.s.Sleep(fmt.Sprintf("broker%d", i), time.Duration(bp.delayMs)*time.Millisecond)
			}
			if rq.proxied {
				switch bp.reply {
				case "failure":
					_ = ccb.WriteControlAd(w.bg, st, ccb.NewAd(map[string]any{ccb.AttrResult: false, ccb.AttrErrorString: "target-not-registered-" + fmt.Sprint(i)}))
					conn.Close()
					return
				case "none":
					return
				}
				_ = ccb.WriteControlAd(w.bg, st, ccb.NewAd(map[string]any{ccb.AttrResult: true}))
				id := rq.connect
				if bp.proxyID == "wrong" {
					if len(id) >= 8 {
						id = "deadbeef" + id[8:]
					} else {
						id = "deadbeef" + id
					}
				}
				if bp.proxyID == "noid" || bp.proxyID == "emptyid" || bp.proxyID == "intid" {
					// the spliced hello carries no usable id at all
					w.helloWithoutID(st, bp.proxyID)
					w.connectors = append(w.connectors, &connector{who: fmt.Sprintf("proxy-broker%d:%s", i, bp.proxyID), presented: "(" + bp.proxyID + ")", ep: conn.(*simnet.Endpoint), dialNo: rq.dialNo})
				} else if bp.proxyID != "none" {
					_ = ccb.WriteReverseConnect(w.bg, st, id, "req-1", "<10.0.9.9:1>")
					w.connectors = append(w.connectors, &connector{who: fmt.Sprintf("proxy-broker%d:%s", i, bp.proxyID), presented: id, ep: conn.(*simnet.Endpoint), dialNo: rq.dialNo})
				}
				buf := make([]byte, 64)
				for {
					if _, err := conn.Read(buf); err != nil {
						return
					}
				}
			}
			// standard mode: the reply and the reverse connection race
			if bp.connect != "none" {
				id := rq.connect
				who := "legit:" + id
				if bp.connect == "wrongid" {
					id = id[:len(id)-1] + "x"
					who = "rogue:broker-sent-wrong-id"
				}
				if bp.connect == "cross" {
					// the id of another attempt of the same dial, presented to this attempt's listener
					for _, other := range w.requests {
						if other.dialNo == rq.dialNo && other.broker != rq.broker {
							id, who = other.connect, "rogue:other-attempts-id"
						}
					}
				}
				if bp.connect == "stale" {
					// the id of an earlier request of this run, if any
					for _, old := range w.requests {
						if old.dialNo < rq.dialNo {
							id, who = old.connect, "rogue:stale-id"
						}
					}
				}
				dn := rq.dialNo
				w.s.Go(fmt.Sprintf("connector:%d.%d", i, n), func() { w.reverseConnect(who, rq.myAddr, id, "hello", dn) })
			}
			switch bp.reply {
			case "success":
				_ = ccb.WriteControlAd(w.bg, st, ccb.NewAd(map[string]any{ccb.AttrResult: true}))
			case "failure":
				_ = ccb.WriteControlAd(w.bg, st, ccb.NewAd(map[string]any{ccb.AttrResult: false, ccb.AttrErrorString: "target-not-registered-" + fmt.Sprint(i)}))
			}
			buf := make([]byte, 64)
			for {
				if _, err := conn.Read(buf); err != nil {
					return
				}
			}
		})
	}
}

func run(s *kernel.Sim, c *scen.Case) {
	hs.Init()
	defer func() { verifhook.DialFunc, verifhook.ListenFunc = nil, nil }()
	t := s.T
	w := &world{s: s, t: t, bg: context.Background()}
	w.net = simnet.New(s, simnet.Config{MaxLatency: time.Duration(t.Choose("lat", 3)) * 20 * time.Millisecond})
	s.Quantum, s.IdleMax = 20*time.Second, 2
	verifhook.DialFunc = func(ctx context.Context, network, addr string) (net.Conn, error) {
		ep, err := w.net.Dial(ctx, "10.0.0.1", addr)
		if err != nil {
			return nil, err
		}
		return ep, nil
	}
	verifhook.ListenFunc = func(network, addr string) (net.Listener, error) {
		l, err := w.net.Listen("10.0.0.1:0")
		if err == nil {
			w.lnAddrs = append(w.lnAddrs, l.Addr().String())
		}
		return l, err
	}
	proxied := t.Chance("proxied", 1, 4)
	nested := !proxied && t.Chance("nested", 1, 4)
	nb := 1 + t.Choose("nbrokers", 3)
	var plans []*brokerPlan
	var contacts []addresses.CCBContact
	var listeners []*simnet.Listener
	for i := 0; i < nb; i++ {
		bp := &brokerPlan{addr: fmt.Sprintf("10.0.1.%d:9618", i+1)}
		bp.dead = t.Chance("dead", 1, 6)
		bp.reply = kernel.Pick(t, "reply", "success", "failure", "none")
		bp.connect = kernel.Pick(t, "connect", "legit", "legit", "none", "wrongid", "stale", "cross")
		bp.delayMs = kernel.Pick(t, "delay", 0, 0, 100, 400, 3000)
		bp.proxyID = kernel.Pick(t, "proxyid", "right", "right", "right", "wrong", "none", "noid", "emptyid", "intid")
		if bp.reply == "failure" {
			bp.connect = "none" // an honest-looking broker that reports failure does not also connect
		}
		plans = append(plans, bp)
		if nested {
			// a nested (multi-hop) contact: the broker is itself CCB-routed, the dialer hands the
			// whole id chain to the entry broker in one streaming request
			contacts = append(contacts, addresses.CCBContact{BrokerAddr: fmt.Sprintf("%s#%d", bp.addr, 100+i), CCBID: "900", Raw: fmt.Sprintf("%s#%d#900", bp.addr, 100+i)})
		} else {
			contacts = append(contacts, addresses.CCBContact{BrokerAddr: bp.addr, CCBID: fmt.Sprint(100 + i), Raw: fmt.Sprintf("%s#%d", bp.addr, 100+i)})
		}
		if !bp.dead {
			ln, err := w.net.Listen(bp.addr)
			if err != nil {
				panic(err)
			}
			listeners = append(listeners, ln)
			i, ln := i, ln
			s.Go(fmt.Sprintf("broker%d", i), func() { w.runBroker(i, bp, ln) })
		}
	}
	type dialResult struct {
		conn   net.Conn
		err    error
		dialNo int
		plans  string
	}
	var results []dialResult
	ndials := 1 + t.Choose("ndials", 3)
	nrogues := t.Choose("nrogues", 4)
	s.Go("requester", func() {
		defer func() {
			w.stop = true
			for _, ln := range listeners {
				ln.Close()
			}
		}()
		for d := 0; d < ndials; d++ {
			w.dialNo = d
			// rogues aim at this dial's listener as soon as a broker has learnt its address
			for r := 0; r < nrogues; r++ {
				kind := kernel.Pick(t, "rogue", "wrongid", "emptyid", "garbage", "close", "halfclose", "halfclose-partial", "silent", "stale", "prefix", "extended", "upper", "noid", "intid")
				// when it connects: as soon as a request is known; at the instant a legitimate connection for
				// a sibling attempt of the same dial is on its way (the dial is about to be decided and the
				// other attempts cancelled); or at the instant the attempt's own timeout expires
				when := kernel.Pick(t, "rogue.when", "asap", "asap", "at-win", "at-deadline")
				d, r := d, r
				s.Go(fmt.Sprintf("rogue%d.%d", d, r), func() {
					var rq *request
					for i := 0; i < 400 && rq == nil && !w.stop; i++ {
						for _, q := range w.requests {
							if q.dialNo == d && !q.proxied {
								rq = q
							}
						}
						if rq == nil {
							s.Sleep(fmt.Sprintf("rogue%d.%d", d, r), 25*time.Millisecond)
						}
					}
					if rq == nil {
						return
					}
					switch when {
					case "at-win":
						for i := 0; i < 2000 && !w.stop; i++ {
							won := false
							for _, cn := range w.connectors {
								if cn.dialNo == d && strings.HasPrefix(cn.who, "legit") {
									won = true
								}
							}
							if won {
								break
							}
							s.Sleep(fmt.Sprintf("rogue%d.%d", d, r), 5*time.Millisecond)
						}
						// prefer the listener of an attempt that is not the one being won
						for _, q := range w.requests {
							won := false
							for _, cn := range w.connectors {
								if cn.dialNo == d && cn.presented == q.connect {
									won = true
								}
							}
							if q.dialNo == d && !q.proxied && !won {
								rq = q
							}
						}
					case "at-deadline":
						if wait := rq.received + 20*time.Second - s.Now(); wait > 0 {
							s.Sleep(fmt.Sprintf("rogue%d.%d", d, r), wait)
						}
					}
					if w.stop {
						return
					}
					id, k := "0123456789abcdef0123456789abcdef01234567", "hello"
					switch kind {
					case "emptyid":
						id = ""
					case "prefix": // near misses of the right id: the hello must carry exactly it
						id = rq.connect[:len(rq.connect)/2]
					case "extended":
						id = rq.connect + "0"
					case "upper":
						if id = strings.ToUpper(rq.connect); id == rq.connect {
							id = rq.connect + " "
						}
					case "noid", "intid":
						k = kind
					case "garbage", "close", "silent", "halfclose", "halfclose-partial":
						k = kind
					case "stale":
						for _, old := range w.requests {
							if old.dialNo < d {
								id = old.connect
							}
						}
					}
					w.reverseConnect("rogue:"+kind, rq.myAddr, id, k, d)
				})
			}
			opts := ccb.DialOptions{Security: hs.Cfg(security.SecurityNever, security.SecurityOptional, nil, hs.AES, security.NoCommand), TargetDesc: "target", Timeout: 20 * time.Second}
			opts.Security.SessionCache = security.NewSessionCache()
			if proxied {
				opts.ProxyReturnAddr = "<10.0.1.1:9618?ccbid=10.0.1.1:9618%23999>"
			}
			conn, err := ccb.Dial(w.bg, contacts, opts)
			results = append(results, dialResult{conn: conn, err: err, dialNo: d})
			if conn != nil {
				s.Sleep("requester-hold", 50*time.Millisecond)
				conn.Close()
			}
			s.Sleep("requester-gap", 200*time.Millisecond)
		}
	})
	s.Run()
	for _, tk := range s.Tasks() {
		if tk.Panic != nil {
			s.Violate("panic", "c20", fmt.Sprintf("task %s: %v\n%s", tk.Name, tk.Panic, tk.Stack))
			return
		}
	}
	mode := "standard"
	if proxied {
		mode = "proxied"
	}
	if nested {
		mode = "nested"
		proxied = true // judged like proxied mode: the connection to return is the broker's, after the matching hello
	}
	var planDesc []string
	for i, bp := range plans {
		planDesc = append(planDesc, fmt.Sprintf("broker%d{dead=%v reply=%s connect=%s delay=%dms proxyid=%s}", i, bp.dead, bp.reply, bp.connect, bp.delayMs, bp.proxyID))
	}
	// the connect id is fresh for every request: no two requests of a run (attempts of one dial, or
	// successive dials) may carry the same one - a party that saw one could answer the other
	for i, q := range w.requests {
		for _, o := range w.requests[:i] {
			if q.connect != "" && q.connect == o.connect {
				s.Violate("connect-id-not-fresh", mode, fmt.Sprintf("%s mode, %s: the request to broker %d of dial %d carries the connect id already used for broker %d of dial %d", mode, strings.Join(planDesc, " "), q.broker, q.dialNo, o.broker, o.dialNo))
				return
			}
		}
	}
	for _, r := range results {
		ids := map[string]bool{}
		for _, q := range w.requests {
			if q.dialNo == r.dialNo {
				ids[q.connect] = true
			}
		}
		desc := fmt.Sprintf("%s mode, dial %d, %s, %d rogue connectors: Dial returned conn=%v err=%v", mode, r.dialNo, strings.Join(planDesc, " "), nrogues, r.conn != nil, r.err)
		s.Note("%s", desc)
		if r.conn != nil {
			ep, ok := r.conn.(*simnet.Endpoint)
			if !ok {
				s.Violate("unknown-connection-returned", mode, desc)
				return
			}
			// who is at the other end?
			var src *connector
			for _, cn := range w.connectors {
				if cn.ep == ep.Peer() || cn.ep == ep {
					src = cn
				}
			}
			if src == nil {
				s.Violate("unknown-connection-returned", mode, desc+": the returned connection was not opened by any known connector")
				return
			}
			if !ids[src.presented] || src.presented == "" {
				s.Violate("returned-connection-with-wrong-connect-id", mode+"/"+kindOf(src.who), fmt.Sprintf("%s: the returned connection was opened by %s and presented id %q, which is not the id of any request of this dial", desc, src.who, src.presented))
				return
			}
			if !proxied {
				// ... and of the very attempt whose listener accepted it
				for _, q := range w.requests {
					if q.dialNo == r.dialNo && q.connect == src.presented && q.myAddr != ep.LocalAddr().String() {
						s.Violate("returned-connection-with-wrong-connect-id", mode+"/other-attempt", fmt.Sprintf("%s: the connection accepted on %s presented the id generated for the attempt listening on %s", desc, ep.LocalAddr(), q.myAddr))
						return
					}
				}
			}
			s.Probe("dial-returned-matching-connection")
		} else {
			s.Probe("dial-returned-error")
			// a single broker that reported failure: the error carries its reason
			if len(plans) == 1 && !plans[0].dead && plans[0].reply == "failure" && !strings.Contains(r.err.Error(), "target-not-registered-0") {
				s.Violate("broker-failure-reason-lost", mode, desc)
				return
			}
		}
		// every connection that presented anything else was closed by the dialer and never returned
		for _, cn := range w.connectors {
			if cn.dialNo != r.dialNo {
				continue
			}
			if strings.HasPrefix(cn.who, "proxy-") && ids[cn.presented] {
				continue // proxied mode, matching hello: this is the connection to return (judged above)
			}
			if ids[cn.presented] && cn.presented != "" {
				if r.conn == nil || cn.ep.Peer() != r.conn.(*simnet.Endpoint) {
					if cn.ep.Peer().Closed() {
						s.Probe("losing-legitimate-connection-closed")
					} else {
						s.Probe("losing-legitimate-connection-left-open")
					}
				}
				continue
			}
			if !cn.ep.Peer().Closed() && !cn.ep.Closed() {
				s.Violate("rogue-connection-left-open", mode+"/"+kindOf(cn.who), fmt.Sprintf("%s: connection from %s (presented %q) was neither returned nor closed by the dialer", desc, cn.who, cn.presented))
				return
			}
			s.Probe("rogue-connection-closed")
		}
	}
}

func kindOf(who string) string {
	if i := strings.Index(who, ":"); i >= 0 && strings.HasPrefix(who, "legit") {
		return "legit"
	}
	return who
}

var scenarios = []*scen.Scenario{
	{Name: "dial", ResidualNondeterminism: "ccb.Dial selects over its result channel, the stagger timer and the context: when two become ready at the same virtual instant Go picks one with runtime randomness the simulator cannot seed (observed about once in 10^5 runs)", Gen: func(g *scen.Gen) {
		for i := uint64(0); ; i++ {
			if !g.Emit(scen.Case{Seed: g.Seed*1_000_003 + i, Params: scen.Params(params{Kind: "dial"})}) {
				return
			}
		}
	}, Run: run},
}

func TestScenario(t *testing.T) { scen.Main(t, "C20", scenarios) }
