// C15 — exported crypto state resumes the session exactly; export only when
// clean. The hand-off is the library's crash/restart: the blob is the only
// state that survives; the Stream object is discarded and a new one is built
// from the blob around a new conn object attached to the same pipes. It is one
// more generated operation inside bidirectional traffic.
package c15

import (
	"bytes"
	"context"
	"errors"
	"fmt"
	"testing"

	"cedarsim/kernel"
	"cedarsim/refcodec"
	"cedarsim/scen"
	"cedarsim/simnet"

	"github.com/bbockelm/cedar/message"
	"github.com/bbockelm/cedar/stream"
)

type params struct {
	Kind string `json:"kind"` // history | blob
	Cut  int    `json:"cut,omitempty"`
	Pos  int    `json:"pos,omitempty"`
	Xor  int    `json:"xor,omitempty"`
	Long bool   `json:"long,omitempty"` // allow a burst long enough to pass 2^16 frames
}

type opT struct {
	kind    string // ab, ba, burst, handoff, unclean
	side    int    // handoff/unclean: 0=A 1=B 2=both
	size    int
	sendAPI int
	recvAPI int
	n1, n2  int
	unclean string // sendbuf | inmessage
	body    []byte
	bodies  [2][][]byte
}

type side struct {
	name     string
	ep       *simnet.Endpoint
	st       *stream.Stream
	gen      int
	handoffs int
}

type world struct {
	s    *kernel.Sim
	t    *kernel.Tape
	ctx  context.Context
	errs []string
	viol bool
}

func (w *world) fail(class, sig, f string, a ...any) {
	if !w.viol {
		w.s.Violate(class, sig, fmt.Sprintf(f, a...))
		w.viol = true
	}
}

func sendMsg(ctx context.Context, st *stream.Stream, api int, body []byte) error {
	switch api {
	case 0:
		return st.SendMessage(ctx, body)
	case 1:
		st.StartMessage()
		h := len(body) / 2
		if err := st.WriteMessage(ctx, body[:h]); err != nil {
			return err
		}
		if err := st.WriteMessage(ctx, body[h:]); err != nil {
			return err
		}
		if err := st.EndMessage(ctx); err != nil {
			return err
		}
		st.StartMessage() // leave the send side at a clean boundary
		return nil
	default:
		m := message.NewMessageForStream(st)
		if err := m.PutBytes(ctx, body); err != nil {
			return err
		}
		return m.FinishMessage(ctx)
	}
}

func recvMsg(ctx context.Context, st *stream.Stream, api int, n int) ([]byte, error) {
	if api == 0 {
		return st.ReceiveCompleteMessage(ctx)
	}
	if err := st.StartMessageRead(ctx); err != nil {
		return nil, err
	}
	buf := make([]byte, n)
	got := 0
	for got < n {
		k, err := st.ReadMessageBytes(ctx, buf[got:])
		if err != nil {
			return buf[:got], err
		}
		if k == 0 {
			break
		}
		got += k
	}
	if err := st.EndMessageRead(); err != nil {
		return buf[:got], err
	}
	return buf[:got], nil
}

// handoff exports, discards the stream, and rebuilds it from the blob.
func (w *world) handoff(sd *side, where string) bool {
	if w.s.T.Chance("export.mode-off", 1, 3) {
		// the key stays but encryption is switched off: this is not an encrypted stream, and a
		// blob saying so would make the next owner talk in clear to a peer that expects AES-GCM
		if w.s.T.Choose("export.mode-off.how", 2) == 0 {
			sd.st.SetCryptoMode(false)
		} else {
			sd.st.SetEncrypted(false)
		}
		_, xerr := sd.st.ExportCryptoState()
		sd.st.SetCryptoMode(true)
		if xerr == nil {
			w.fail("export-accepted-unclean", "encryption-switched-off", "%s: export succeeded on a keyed stream whose encryption was switched off", sd.name)
			return false
		}
		w.s.Probe("unclean-export-refused:mode-off")
	}
	blob, err := sd.st.ExportCryptoState()
	if err != nil {
		w.fail("export-refused-at-clean-boundary", where, "%s: export at a message boundary after traffic in both directions failed: %v", sd.name, err)
		return false
	}
	sd.gen++
	sd.handoffs++
	ne := sd.ep.Rewrap(fmt.Sprintf("%s.%d", sd.name, sd.gen))
	ns, err := stream.NewStreamWithCryptoState(ne, blob)
	if err != nil {
		w.fail("import-rejected-valid-blob", where, "%s: import of a freshly exported blob failed: %v", sd.name, err)
		return false
	}
	// the blob holds the raw key: a careful caller wipes it once the stream is built (the stream
	// must not depend on the caller's buffer afterwards)
	for i := range blob {
		blob[i] = 0
	}
	sd.ep, sd.st = ne, ns
	w.s.Fault("handoff")
	return true
}

type doneWait struct{ tk *kernel.Task }

func (d doneWait) Ready(s *kernel.Sim) bool { return s.Ended() || d.tk.Done }

func runHistory(s *kernel.Sim, c *scen.Case) {
	var p params
	c.P(&p)
	t := s.T
	ctx := context.Background()
	w := &world{s: s, t: t, ctx: ctx}
	net := simnet.New(s, simnet.DrawConfig(t))
	ea, eb := net.Pipe("A", "B", "10.0.0.1:1000", "10.0.0.2:9618")
	ea.Tap()
	eb.Tap()
	A := &side{name: "A", ep: ea, st: stream.NewStream(ea)}
	B := &side{name: "B", ep: eb, st: stream.NewStream(eb)}
	key := t.Bytes("key", 32)
	// plan
	var ops []*opT
	mkBody := func(n int, tag byte) []byte {
		b := t.Bytes("body", n)
		if n > 0 {
			b[0] = tag
		}
		return b
	}
	size := func() int { return kernel.Pick(t, "sz", 0, 1, 17, 300, 4095, 4096, 5000, 20000) }
	// the session must carry a protected frame each way before any hand-off
	ops = append(ops, &opT{kind: "ab", size: 9, body: mkBody(9, 1)}, &opT{kind: "ba", size: 9, body: mkBody(9, 2)})
	n := 3 + t.Choose("nops", 10)
	for i := 0; i < n; i++ {
		tag := byte(10 + i)
		switch t.Choose("op", 8) {
		case 0, 1:
			sz := size()
			ops = append(ops, &opT{kind: "ab", size: sz, body: mkBody(sz, tag), sendAPI: t.Choose("sapi", 3), recvAPI: t.Choose("rapi", 2)})
		case 2, 3:
			sz := size()
			ops = append(ops, &opT{kind: "ba", size: sz, body: mkBody(sz, tag), sendAPI: t.Choose("sapi", 3), recvAPI: t.Choose("rapi", 2)})
		case 4:
			o := &opT{kind: "burst", n1: 1 + t.Choose("n1", 3), n2: 1 + t.Choose("n2", 3)}
			bsize := size
			if t.Chance("longburst", 1, 12) {
				// many tiny frames so that counters pass 2^8 (and, rarely, 2^16) before a hand-off
				o.n1, o.n2 = 260+t.Choose("ln1", 100), 257+t.Choose("ln2", 100)
				if p.Long && t.Chance("verylong", 1, 3) {
					o.n1 = 66000
				}
				bsize = func() int { return 1 }
				s.Probe("long-burst")
			}
			for k := 0; k < o.n1; k++ {
				o.bodies[0] = append(o.bodies[0], mkBody(bsize(), tag))
			}
			for k := 0; k < o.n2; k++ {
				o.bodies[1] = append(o.bodies[1], mkBody(bsize(), tag+100))
			}
			ops = append(ops, o)
		case 5, 6:
			ops = append(ops, &opT{kind: "handoff", side: t.Choose("hside", 3)})
		case 7:
			ops = append(ops, &opT{kind: "unclean", side: t.Choose("uside", 2), unclean: kernel.Pick(t, "ukind", "sendbuf", "inmessage"), body: mkBody(50, tag)})
		}
	}
	// what each direction carried, in order, for the wire monitor
	var sentAB, sentBA [][]byte
	run := func(me, peer *side, meIdx int) {
		// cleartext preamble then key: unkeyed and no-traffic-yet exports must be refused
		if _, err := me.st.ExportCryptoState(); err == nil {
			w.fail("export-accepted-unclean", "unkeyed", "%s: export of an unkeyed stream succeeded", me.name)
		}
		if meIdx == 0 {
			if err := me.st.SendMessage(ctx, []byte("hello-clear")); err != nil {
				return
			}
		} else {
			if _, err := me.st.ReceiveCompleteMessage(ctx); err != nil {
				return
			}
		}
		if err := me.st.SetSymmetricKey(key); err != nil {
			panic(err)
		}
		if _, err := me.st.ExportCryptoState(); err == nil {
			w.fail("export-accepted-unclean", "no-protected-frame-yet", "%s: export before any protected frame succeeded", me.name)
		}
		for oi, o := range ops {
			if w.viol || s.Ended() {
				return
			}
			where := fmt.Sprintf("op%d/%s", oi, o.kind)
			_ = where
			switch o.kind {
			case "ab", "ba":
				sender := 0
				if o.kind == "ba" {
					sender = 1
				}
				if meIdx == sender {
					if oi == 0 || oi == 1 {
						// after only one direction carried a protected frame export must still be refused
					}
					if err := sendMsg(ctx, me.st, o.sendAPI, o.body); err != nil {
						if !errors.Is(err, simnet.ErrSimEnded) {
							w.fail("send-failed-after-handoff", fmt.Sprintf("%s/handoffs>0=%v", o.kind, me.handoffs+peer.handoffs > 0), "%s op %d send (%d bytes): %v", me.name, oi, len(o.body), err)
						}
						return
					}
				} else {
					got, err := recvMsg(ctx, me.st, o.recvAPI, len(o.body))
					if err != nil {
						if !errors.Is(err, simnet.ErrSimEnded) {
							w.fail("receive-failed-after-handoff", fmt.Sprintf("%s/handoffs>0=%v", o.kind, me.handoffs+peer.handoffs > 0), "%s op %d receive (%d bytes, %d hand-offs so far here, %d at peer): %v", me.name, oi, len(o.body), me.handoffs, peer.handoffs, err)
						}
						return
					}
					if !bytes.Equal(got, o.body) {
						w.fail("message-differs-after-handoff", o.kind, "%s op %d: got %d bytes, want %d", me.name, oi, len(got), len(o.body))
						return
					}
					if oi == 0 {
						// only A->B has carried a protected frame so far: B has received one but sent none
						if _, err := me.st.ExportCryptoState(); err == nil {
							w.fail("export-accepted-unclean", "one-direction-only", "%s: export succeeded before a protected frame went out in its own send direction", me.name)
						}
					}
				}
			case "burst":
				mine, theirs := o.bodies[meIdx], o.bodies[1-meIdx]
				st := me.st
				tk := s.Go(fmt.Sprintf("%s.burst%d", me.name, oi), func() {
					for _, b := range mine {
						if err := st.SendMessage(ctx, b); err != nil {
							if !errors.Is(err, simnet.ErrSimEnded) {
								w.fail("send-failed-after-handoff", "burst", "%s burst send: %v", me.name, err)
							}
							return
						}
					}
				})
				for k, b := range theirs {
					got, err := st.ReceiveCompleteMessage(ctx)
					if err != nil {
						if !errors.Is(err, simnet.ErrSimEnded) {
							w.fail("receive-failed-after-handoff", "burst", "%s burst receive %d: %v", me.name, k, err)
						}
						return
					}
					if !bytes.Equal(got, b) {
						w.fail("message-differs-after-handoff", "burst", "%s burst message %d differs", me.name, k)
						return
					}
				}
				s.Park("join:"+me.name, doneWait{tk})
			case "handoff":
				if o.side == meIdx || o.side == 2 {
					if !w.handoff(me, "after-"+ops[oi-1].kind) {
						return
					}
				}
			case "unclean":
				// side o.side is put into an unclean state, must be refused, then completes
				if o.unclean == "sendbuf" {
					if meIdx == o.side {
						me.st.StartMessage()
						if err := me.st.WriteMessage(ctx, o.body[:20]); err != nil {
							return
						}
						if _, err := me.st.ExportCryptoState(); err == nil {
							w.fail("export-accepted-unclean", "buffered-partial-send", "%s: export succeeded with %d unsent bytes buffered", me.name, 20)
							return
						}
						s.Probe("unclean-export-refused:sendbuf")
						if err := me.st.WriteMessage(ctx, o.body[20:]); err != nil {
							return
						}
						if err := me.st.EndMessage(ctx); err != nil {
							return
						}
						me.st.StartMessage()
					} else {
						got, err := me.st.ReceiveCompleteMessage(ctx)
						if err != nil || !bytes.Equal(got, o.body) {
							if !errors.Is(err, simnet.ErrSimEnded) {
								w.fail("receive-failed-after-handoff", "unclean-sendbuf", "%s: %v", me.name, err)
							}
							return
						}
					}
				} else {
					if meIdx == o.side {
						if err := me.st.StartMessageRead(ctx); err != nil {
							if !errors.Is(err, simnet.ErrSimEnded) {
								w.fail("receive-failed-after-handoff", "unclean-inmessage", "%s: %v", me.name, err)
							}
							return
						}
						buf := make([]byte, 10)
						if _, err := me.st.ReadMessageBytes(ctx, buf); err != nil {
							return
						}
						if _, err := me.st.ExportCryptoState(); err == nil {
							w.fail("export-accepted-unclean", "partially-consumed-receive", "%s: export succeeded inside a partially consumed message", me.name)
							return
						}
						s.Probe("unclean-export-refused:inmessage")
						rest := make([]byte, len(o.body)-10)
						if _, err := me.st.ReadMessageBytes(ctx, rest); err != nil {
							return
						}
						if err := me.st.EndMessageRead(); err != nil {
							return
						}
					} else {
						if err := me.st.SendMessage(ctx, o.body); err != nil {
							return
						}
					}
				}
			}
		}
	}
	for _, o := range ops {
		switch o.kind {
		case "ab":
			sentAB = append(sentAB, o.body)
		case "ba":
			sentBA = append(sentBA, o.body)
		case "burst":
			sentAB = append(sentAB, o.bodies[0]...)
			sentBA = append(sentBA, o.bodies[1]...)
		case "unclean":
			if (o.unclean == "sendbuf") == (o.side == 0) {
				sentAB = append(sentAB, o.body)
			} else {
				sentBA = append(sentBA, o.body)
			}
		}
	}
	doneA, doneB := false, false
	s.MaxSteps = 30_000_000
	s.Go("A", func() { run(A, B, 0); doneA = !s.Ended() })
	s.Go("B", func() { run(B, A, 1); doneB = !s.Ended() })
	s.Run()
	if s.Overrun {
		s.Probe("step-cap-reached-inconclusive")
		return
	}
	defer func() { A.ep.CloseQuiet(); B.ep.CloseQuiet() }()
	for _, tk := range s.Tasks() {
		if tk.Panic != nil {
			s.Violate("panic", "history", fmt.Sprintf("task %s: %v\n%s", tk.Name, tk.Panic, tk.Stack))
			return
		}
	}
	if w.viol {
		return
	}
	if !(doneA && doneB) || s.Quiescent {
		s.Violate("history-did-not-complete", fmt.Sprintf("handoffs=%v", A.handoffs+B.handoffs > 0), fmt.Sprintf("blocked at %v after %d+%d hand-offs", s.BlockedAt, A.handoffs, B.handoffs))
		return
	}
	// wire monitor (C12's reference) across all hand-offs: one counter sequence per direction
	pre := refcodec.NewDigest()
	fa, _ := refcodec.ParseFrames(ea.SentBytes())
	fb, _ := refcodec.ParseFrames(eb.SentBytes())
	if len(fa) == 0 {
		return
	}
	pre.Add(fa[0].Raw)
	zero := make([]byte, 32)
	check := func(name string, frames []refcodec.Frame, aad []byte, want [][]byte) {
		dir, _ := refcodec.NewGCMDir(key, aad)
		mi := 0
		var acc []byte
		for i, f := range frames {
			pt, err := dir.Open(f)
			if errors.Is(err, refcodec.ErrNonceReuse) {
				s.Violate("nonce-reuse-across-handoff", name, fmt.Sprintf("%s frame %d reuses a nonce", name, i))
				return
			}
			if err != nil {
				s.Violate("frame-does-not-open-after-handoff", name, fmt.Sprintf("%s frame %d: %v", name, i, err))
				return
			}
			acc = append(acc, pt...)
			if f.End != 0 {
				if mi >= len(want) || !bytes.Equal(acc, want[mi]) {
					s.Violate("wire-plaintext-differs", name, fmt.Sprintf("%s message %d on the wire differs from what was sent", name, mi))
					return
				}
				mi++
				acc = nil
			}
		}
		if mi != len(want) {
			s.Violate("wire-message-count", name, fmt.Sprintf("%s: %d messages on the wire, %d sent", name, mi, len(want)))
		}
	}
	check("A->B", fa[1:], append(append([]byte(nil), pre.Final()...), zero...), sentAB)
	check("B->A", fb, append(append([]byte(nil), zero...), pre.Final()...), sentBA)
	if A.handoffs+B.handoffs > 0 {
		s.Probe("history-with-handoff-complete")
	}
	if A.handoffs > 1 || B.handoffs > 1 {
		s.Probe("chained-handoffs")
	}
}

// runBlob: truncations and single-byte corruptions of a valid blob.
func runBlob(s *kernel.Sim, c *scen.Case) {
	var p params
	c.P(&p)
	ctx := context.Background()
	t := s.T
	net := simnet.New(s, simnet.Config{})
	ea, eb := net.Pipe("A", "B", "10.0.0.1:1000", "10.0.0.2:9618")
	sa, sb := stream.NewStream(ea), stream.NewStream(eb)
	key := t.Bytes("key", 32)
	sa.SetSymmetricKey(key)
	sb.SetSymmetricKey(key)
	var blob []byte
	var setupErr error
	s.Go("A", func() {
		if setupErr = sa.SendMessage(ctx, []byte("a1")); setupErr != nil {
			return
		}
		if _, setupErr = sa.ReceiveCompleteMessage(ctx); setupErr != nil {
			return
		}
		blob, setupErr = sa.ExportCryptoState()
	})
	s.Go("B", func() {
		sb.ReceiveCompleteMessage(ctx)
		sb.SendMessage(ctx, []byte("b1"))
	})
	s.Run()
	defer func() { ea.CloseQuiet(); eb.CloseQuiet() }()
	if setupErr != nil || blob == nil {
		s.Violate("blob-setup-failed", "export", fmt.Sprint(setupErr))
		return
	}
	mut := append([]byte(nil), blob...)
	what := ""
	if p.Kind == "trunc" {
		if p.Cut >= len(blob) {
			s.Probe("cut-beyond-blob")
			return
		}
		mut = mut[:p.Cut]
		what = fmt.Sprintf("truncated to %d of %d bytes", p.Cut, len(blob))
		s.Fault("blob-truncated")
	} else {
		if p.Pos >= len(blob) {
			s.Probe("pos-beyond-blob")
			return
		}
		mut[p.Pos] ^= byte(p.Xor)
		what = fmt.Sprintf("byte %d xor %#x", p.Pos, p.Xor)
		s.Fault("blob-byte-corrupted")
	}
	ea2 := ea.Rewrap("A2")
	ns, err := stream.NewStreamWithCryptoState(ea2, mut)
	if p.Kind == "trunc" {
		if err == nil {
			s.Violate("truncated-blob-accepted", "trunc", what)
		}
		return
	}
	if p.Pos < 6 {
		if err == nil {
			s.Violate("mistagged-blob-accepted", fmt.Sprintf("byte%d", p.Pos), what+": tag/version corruption accepted")
		}
		return
	}
	if err != nil {
		s.Probe("corrupt-blob-rejected")
		return
	}
	s.Probe("corrupt-blob-imported")
	// imported although corrupted: traffic may fail, never deliver wrong data
	want1, want2 := []byte("after-import-A"), []byte("after-import-B")
	var gotB, gotA []byte
	var errA, errB error
	s.Go("A2", func() {
		if errA = ns.SendMessage(ctx, want1); errA != nil {
			return
		}
		gotA, errA = ns.ReceiveCompleteMessage(ctx)
	})
	s.Go("B2", func() {
		gotB, errB = sb.ReceiveCompleteMessage(ctx)
		if errB != nil {
			return
		}
		errB = sb.SendMessage(ctx, want2)
	})
	s.Run()
	ea2.CloseQuiet()
	if errB == nil && gotB != nil && !bytes.Equal(gotB, want1) {
		s.Violate("wrong-data-after-corrupt-import", fmt.Sprintf("pos=%d", p.Pos), what+": peer accepted altered data")
	}
	if errA == nil && gotA != nil && !bytes.Equal(gotA, want2) {
		s.Violate("wrong-data-after-corrupt-import", fmt.Sprintf("pos=%d", p.Pos), what+": imported stream returned altered data")
	}
}

var scenarios = []*scen.Scenario{
	{Name: "blob", Enumerated: true, Gen: func(g *scen.Gen) {
		seed := g.Seed * 977
		for cut := 0; cut < 200; cut++ {
			seed++
			if !g.Emit(scen.Case{Seed: seed, Params: scen.Params(params{Kind: "trunc", Cut: cut})}) {
				return
			}
		}
		for pos := 0; pos < 200; pos++ {
			for _, x := range []int{0x01, 0x80, 0xff} {
				seed++
				if !g.Emit(scen.Case{Seed: seed, Params: scen.Params(params{Kind: "corrupt", Pos: pos, Xor: x})}) {
					return
				}
			}
		}
	}, Run: runBlob},
	{Name: "history", Gen: func(g *scen.Gen) {
		for i := uint64(0); ; i++ {
			if !g.Emit(scen.Case{Seed: g.Seed*1_000_003 + i, Params: scen.Params(params{Kind: "history", Long: !g.Quick() && i%40 == 7})}) {
				return
			}
		}
	}, Run: runHistory},
}

func TestScenario(t *testing.T) { scen.Main(t, "C15", scenarios) }
