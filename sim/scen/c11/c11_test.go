// C11 — token authentication proves possession of a valid token, in both
// directions. Real TOKEN client and server halves on the simulated network with
// in-memory signing keys: the client's token is mutated bit by bit, signed by
// other keys, aged and expired with the virtual clock moved during the
// exchange; the server's key is swapped or removed; a field-aware relay alters
// every element of the three cleartext AKEP2 messages; and the standalone
// verifier is compared with an independent reference on the same variants.
package c11

import (
	"context"
	"fmt"
	"strings"
	"testing"
	"time"

	"cedarsim/hs"
	"cedarsim/kernel"
	"cedarsim/puppet"
	"cedarsim/refcodec"
	"cedarsim/scen"
	"cedarsim/simnet"

	"github.com/bbockelm/cedar/message"
	"github.com/bbockelm/cedar/security"
	"github.com/bbockelm/cedar/stream"
)

type params struct {
	Kind   string `json:"kind"` // token | serverkey | relay | verify
	Var    string `json:"var,omitempty"`
	Bit    int    `json:"bit,omitempty"`
	Msg    int    `json:"msg,omitempty"`   // relay: 1,2,3
	Field  string `json:"field,omitempty"` // relay: field name
	Mut    string `json:"mut,omitempty"`   // relay: wrong | truncated | empty | status | trailing | identity
	Clock  int    `json:"clock,omitempty"` // verify: seconds added to the clock
	Delay  int    `json:"delay,omitempty"` // token: virtual seconds the server is delayed before reading step 1
	MaxAge int    `json:"max_age,omitempty"`
	SSL    bool   `json:"ssl,omitempty"` // token: both ends also list SSL after TOKEN, so a failed token exchange can fall back to it
}

const maxAge = 600

// sslFallback, when set, makes handshake() list SSL after TOKEN on both ends (set by runToken for the ssl cases).
var sslFallback *hs.SSLWorld

type outcome struct {
	cn, sn     *security.SecurityNegotiation
	cerr, serr error
	serverAt   time.Time
}

// handshake runs a real TOKEN handshake without encryption (so that the transcript
// binding of an encrypted session does not mask the AKEP2 checks themselves).
func handshake(s *kernel.Sim, tw *hs.TokenWorld, token string, serverKeys hs.MemCreds, delay time.Duration, relay func(dir int) simnet.Filter, plain bool) *outcome {
	t := s.T
	ctx := context.Background()
	// no latency: the only thing that moves the clock is the injected server delay, so the
	// instant at which the server validates the token is known exactly
	cfg := simnet.Config{}
	if delay == 0 {
		cfg = simnet.DrawConfig(t)
		cfg.MaxLatency = 0
	}
	net := simnet.New(s, cfg)
	pr := hs.NewPair(net, 1)
	if relay != nil {
		pr.CE.SetFilter(relay(0))
		pr.SE.SetFilter(relay(1))
	}
	cciph, sciph := hs.AES, hs.AES
	if plain {
		sciph = []security.CryptoMethod{security.CryptoBlowfish}
	}
	ccfg := hs.Cfg(security.SecurityRequired, security.SecurityOptional, []security.AuthMethod{security.AuthToken}, cciph, 60021)
	ccfg.SessionCache = security.NewSessionCache()
	ccfg.TrustDomain = tw.Issuer
	ccfg.Token = token
	scfg := hs.Cfg(security.SecurityRequired, security.SecurityOptional, []security.AuthMethod{security.AuthToken}, sciph, security.NoCommand)
	tw.ServerToken(scfg)
	scfg.Credentials = serverKeys
	scfg.TokenMaxAge = maxAge
	if sslFallback != nil {
		ccfg.AuthMethods = []security.AuthMethod{security.AuthToken, security.AuthSSL}
		scfg.AuthMethods = []security.AuthMethod{security.AuthToken, security.AuthSSL}
		sslFallback.Server(scfg)
		sslFallback.Client(ccfg)
		for k, v := range serverKeys { // the SSL world brings its own credential reader: the server's token keys go along
			sslFallback.Creds[k] = v
		}
	}
	o := &outcome{}
	if delay > 0 {
		pr.SE.OnOp = func(op simnet.Op) simnet.Action {
			if op.Kind == 'R' && op.KindN == 5 { // header of the third client frame: AKEP2 step 1
				s.Sleep("server-delay", delay)
				s.Fault("clock-moved-during-exchange")
			}
			return simnet.Proceed
		}
	}
	s.Go("client", func() {
		o.cn, o.cerr = security.NewAuthenticator(ccfg, pr.CS).ClientHandshake(ctx)
		pr.CE.Close()
	})
	s.Go("server", func() {
		o.sn, o.serr = security.NewAuthenticator(scfg, pr.SS).ServerHandshake(ctx)
		o.serverAt = time.Now()
		pr.SE.Close()
	})
	s.Run()
	pr.CE.CloseQuiet()
	pr.SE.CloseQuiet()
	return o
}

// verdict: +1 the reference says the token is definitely valid around now, -1 definitely invalid, 0 on a time boundary.
func verdict(tok string, keys map[string][]byte, now int64) (int, string) {
	v := refcodec.ParseToken(tok)
	a, ra := v.Judge(keys, now-1, maxAge)
	b, rb := v.Judge(keys, now+1, maxAge)
	switch {
	case a && b:
		return 1, ra
	case !a && !b:
		return -1, rb
	}
	return 0, "time boundary: " + ra + " / " + rb
}

func subjectUser(tok string) string {
	v := refcodec.ParseToken(tok)
	sub, _ := v.Claims["sub"].(string)
	if i := strings.Index(sub, "@"); i >= 0 {
		return sub[:i]
	}
	return sub
}

func flipBit(sv string, bit int) string {
	b := []byte(sv)
	b[bit/8] ^= 1 << uint(7-bit%8)
	return string(b)
}

func runToken(s *kernel.Sim, p params) {
	t := s.T
	tw := hs.NewTokenWorld(t)
	other := t.Bytes("other-key", 32)
	now := hs.Now()
	keys := map[string][]byte{tw.KeyID: tw.RawKey}
	tok := tw.Token(now-10, now+3600)
	delay := time.Duration(p.Delay) * time.Second
	switch p.Var {
	case "valid":
	case "bitflip":
		if p.Bit >= len(tok)*8 {
			s.Probe("bit-beyond-token")
			return
		}
		tok = flipBit(tok, p.Bit)
	case "other-key":
		tok = refcodec.MakeToken(other, tw.KeyID, tw.Subject, tw.Issuer, now-10, now+3600, "ab")
	case "unknown-kid":
		tok = refcodec.MakeToken(tw.RawKey, "nosuchkey", tw.Subject, tw.Issuer, now-10, now+3600, "ab")
	case "no-kid-pool":
		tok = refcodec.MakeToken(tw.RawKey, "", tw.Subject, tw.Issuer, now-10, now+3600, "ab")
	case "kid-outside-key-dir", "kid-outside-key-dir-nested":
		// a key id that is a path: it leads out of the server's key directory to a file whose
		// content the token's maker knows (a sibling directory whose name begins like the key
		// directory's). The server holds no such key; the reference's key set is unchanged.
		kid := "../simkeys.staging/motd"
		if p.Var == "kid-outside-key-dir-nested" {
			kid = "simkey/../../simkeys.staging/motd"
		}
		tw.Creds["/simkeys.staging/motd"] = hs.Scramble(other)
		tok = refcodec.MakeToken(other, kid, tw.Subject, tw.Issuer, now-10, now+3600, "ab")
	case "expires-during":
		tok = tw.Token(now-10, now+2)
	case "expires-later":
		tok = tw.Token(now-10, now+60)
	case "too-old-during":
		tok = tw.Token(now-maxAge+2, now+3600)
	case "too-old-already":
		tok = tw.Token(now-maxAge-30, now+3600)
	case "fresh-enough":
		tok = tw.Token(now-maxAge+120, now+3600)
	case "no-exp-too-old":
		tok = tw.Token(now-maxAge-30, refcodec.NoExp)
	case "no-exp-fresh":
		tok = tw.Token(now-10, refcodec.NoExp)
	case "no-exp-too-old-during":
		tok = tw.Token(now-maxAge+2, refcodec.NoExp)
	case "other-subject":
		tok = refcodec.MakeToken(tw.RawKey, tw.KeyID, "bob@elsewhere", tw.Issuer, now-10, now+3600, "cd")
	}
	if p.SSL {
		sw, err := hs.NewSSLWorld()
		if err != nil {
			s.Violate("harness", "ssl-world", err.Error())
			return
		}
		defer sw.Close()
		sslFallback = sw
		defer func() { sslFallback = nil }()
	}
	o := handshake(s, tw, tok, tw.Creds, delay, nil, t.Choose("plain", 2) == 1)
	if p.SSL {
		// the token exchange may fail and SSL (server certificate only: no client identity) take over.
		// Whatever succeeded, the server may name the client after the token only if the token was proven.
		at := o.serverAt.Unix()
		vd, why := verdict(tok, keys, at)
		desc := fmt.Sprintf("token variant %s with SSL listed after TOKEN: reference says %s; client err=%v, server err=%v", p.Var, why, o.cerr, o.serr)
		if o.serr == nil && o.sn != nil {
			desc += fmt.Sprintf("; server reports method %q user %q", o.sn.NegotiatedAuth, o.sn.User)
		}
		s.Note("%s", desc)
		if o.serr == nil && o.sn != nil && vd < 0 {
			if o.sn.NegotiatedAuth == security.AuthToken {
				s.Violate("server-accepted-invalid-token", p.Var+"/ssl-listed", desc)
				return
			}
			if o.sn.User != "" && o.sn.User == subjectUser(tok) {
				s.Violate("identity-from-unproven-token", p.Var+"/ssl-fallback", desc+": the token exchange failed, yet the session carries the identity the token named")
				return
			}
			s.Probe("fell-back-to-ssl-without-token-identity")
		}
		if o.serr == nil && vd > 0 {
			s.Probe("ssl-listed-token-succeeded")
		}
		return
	}
	judge(s, p, o, tok, keys, fmt.Sprintf("%s/delay=%d", p.Var, p.Delay))
}

func judge(s *kernel.Sim, p params, o *outcome, tok string, keys map[string][]byte, sig string) {
	for _, tk := range s.Tasks() {
		if tk.Panic != nil {
			s.Violate("panic", sig, fmt.Sprintf("task %s: %v\n%s", tk.Name, tk.Panic, tk.Stack))
			return
		}
	}
	at := o.serverAt.Unix()
	vd, why := verdict(tok, keys, at)
	desc := fmt.Sprintf("token variant %s (bit %d, server delayed %ds): reference says %s; client err=%v, server err=%v", p.Var, p.Bit, p.Delay, why, o.cerr, o.serr)
	s.Note("%s", desc)
	if o.serr == nil {
		if vd < 0 {
			s.Violate("server-accepted-invalid-token", sig, desc)
			return
		}
		if want := subjectUser(tok); o.sn.User != want {
			s.Violate("identity-not-from-token-subject", sig, fmt.Sprintf("%s: server recorded user %q, token subject says %q", desc, o.sn.User, want))
			return
		}
		s.Probe("server-accepted")
	} else {
		s.Probe("server-refused")
	}
	if o.cerr == nil {
		if vd < 0 {
			// the client held a token whose signature the server cannot have known
			s.Violate("client-accepted-without-server-proof", sig, desc)
			return
		}
		s.Probe("client-accepted")
	}
	if vd > 0 && p.Var != "bitflip" && (o.cerr != nil || o.serr != nil) {
		s.Violate("valid-token-refused", sig, desc)
	}
}

func runServerKey(s *kernel.Sim, p params) {
	t := s.T
	tw := hs.NewTokenWorld(t)
	now := hs.Now()
	tok := tw.Token(now-10, now+3600)
	creds := hs.MemCreds{}
	switch p.Var {
	case "different-key-same-kid":
		creds[tw.KeyDir+"/"+tw.KeyID] = hs.Scramble(t.Bytes("imposter-key", 32))
	case "no-key":
	case "empty-key":
		creds[tw.KeyDir+"/"+tw.KeyID] = nil
	}
	o := handshake(s, tw, tok, creds, 0, nil, t.Choose("plain", 2) == 1)
	desc := fmt.Sprintf("server %s: client err=%v server err=%v", p.Var, o.cerr, o.serr)
	if o.cerr == nil {
		s.Violate("client-accepted-without-server-proof", "serverkey/"+p.Var, desc+": the server did not hold the signing key, so it cannot have demonstrated knowledge of the token's signature")
		return
	}
	if o.serr == nil {
		s.Violate("server-accepted-invalid-token", "serverkey/"+p.Var, desc)
		return
	}
	s.Probe("keyless-server-rejected")
}

type fieldRelay struct {
	s     *kernel.Sim
	p     params
	dir   int
	fired *bool
}

func (r *fieldRelay) onFrame(idx int, raw []byte) ([][]byte, bool) {
	// client frames: 0 ad, 1 bitmask, 2 step1, 3 step3; server frames: 0 ad, 1 selection, 2 step2
	var layout []refcodec.Field
	switch {
	case r.dir == 0 && idx == 2 && r.p.Msg == 1:
		layout = refcodec.AKEP2Step1
	case r.dir == 1 && idx == 2 && r.p.Msg == 2:
		layout = refcodec.AKEP2Step2
	case r.dir == 0 && idx == 3 && r.p.Msg == 3:
		layout = refcodec.AKEP2Step3
	default:
		return [][]byte{raw}, false
	}
	fs, err := refcodec.ParseFields(raw[5:], layout)
	if err != nil {
		r.s.Probe("relay-could-not-parse:" + err.Error())
		return [][]byte{raw}, false
	}
	if r.p.Mut == "trailing" {
		*r.fired = true
		r.s.Fault("trailing-bytes")
		return [][]byte{refcodec.MakeFrame(raw[0], append(append([]byte(nil), raw[5:]...), 0xAA, 0xBB, 0xCC))}, false
	}
	for i := range fs {
		f := &fs[i]
		if f.Name != r.p.Field {
			continue
		}
		switch r.p.Mut {
		case "status":
			f.Int = int64(r.p.Bit)
		case "wrong":
			if len(f.Data) == 0 {
				return [][]byte{raw}, false
			}
			f.Data[len(f.Data)/2] ^= 0x21
		case "identity":
			f.Data = []byte("mallory@evil.example")
			if i > 0 && fs[i-1].Kind == 'i' {
				fs[i-1].Int = int64(len(f.Data))
			}
		case "truncated":
			if len(f.Data) < 2 {
				return [][]byte{raw}, false
			}
			f.Data = f.Data[:len(f.Data)-1]
			if i > 0 && fs[i-1].Kind == 'i' {
				fs[i-1].Int = int64(len(f.Data))
			}
		case "empty":
			f.Data = nil
			if i > 0 && fs[i-1].Kind == 'i' {
				fs[i-1].Int = 0
			}
		}
		*r.fired = true
		r.s.Fault("field-" + r.p.Mut)
	}
	return [][]byte{refcodec.MakeFrame(raw[0], refcodec.SerializeFields(fs))}, false
}

func runRelay(s *kernel.Sim, p params) {
	t := s.T
	tw := hs.NewTokenWorld(t)
	now := hs.Now()
	tok := tw.Token(now-10, now+3600)
	fired := false
	o := handshake(s, tw, tok, tw.Creds, 0, func(dir int) simnet.Filter {
		return &simnet.FrameFilter{OnFrame: (&fieldRelay{s: s, p: p, dir: dir, fired: &fired}).onFrame}
	}, true)
	for _, tk := range s.Tasks() {
		if tk.Panic != nil {
			s.Violate("panic", "relay", fmt.Sprintf("task %s: %v\n%s", tk.Name, tk.Panic, tk.Stack))
			return
		}
	}
	if p.Mut == "" {
		if o.cerr != nil || o.serr != nil {
			s.Violate("valid-token-refused", "relay-baseline", fmt.Sprintf("client %v server %v", o.cerr, o.serr))
		}
		s.Probe("relay-baseline-ok")
		return
	}
	if !fired {
		s.Probe("relay-fault-did-not-fire")
		return
	}
	sig := fmt.Sprintf("msg%d/%s/%s", p.Msg, p.Field, p.Mut)
	desc := fmt.Sprintf("AKEP2 message %d, field %s made %s in transit: client err=%v, server err=%v", p.Msg, p.Field, p.Mut, o.cerr, o.serr)
	s.Note("%s", desc)
	if p.Mut == "trailing" {
		s.Probe(fmt.Sprintf("trailing-bytes-msg%d:accepted=%v", p.Msg, (p.Msg == 2 && o.cerr == nil) || (p.Msg != 2 && o.serr == nil)))
		return
	}
	if p.Msg == 1 && (p.Field == "client-id" || p.Field == "client-id-len") {
		// the claimed identity is not a proof: the server may go on, but the identity must come from the token
		if o.serr == nil && o.sn.User != subjectUser(tok) {
			s.Violate("identity-not-from-token-subject", sig, fmt.Sprintf("%s: server recorded %q", desc, o.sn.User))
		}
		return
	}
	// every other element is a proof, an echo, a nonce bound into a proof, or a status: its receiver must not succeed
	if p.Msg == 2 {
		if o.cerr == nil {
			s.Violate("client-accepted-altered-server-proof", sig, desc)
		}
		return
	}
	if o.serr == nil {
		if p.Msg == 1 && (p.Field == "ra" || p.Field == "ra-len") {
			// RA is echoed to, and checked by, the client; the server cannot notice. The client must.
			if o.cerr == nil {
				s.Violate("client-accepted-altered-server-proof", sig, desc)
			}
			return
		}
		s.Violate("server-accepted-altered-client-proof", sig, desc)
	}
}

func runVerify(s *kernel.Sim, p params) {
	t := s.T
	tw := hs.NewTokenWorld(t)
	now := hs.Now()
	keys := map[string][]byte{tw.KeyID: tw.RawKey}
	tok := tw.Token(now-300, now+300)
	switch p.Var {
	case "bitflip":
		if p.Bit >= len(tok)*8 {
			return
		}
		tok = flipBit(tok, p.Bit)
	case "other-key":
		tok = refcodec.MakeToken(t.Bytes("other-key", 32), tw.KeyID, tw.Subject, tw.Issuer, now-300, now+300, "ab")
	case "unknown-kid":
		tok = refcodec.MakeToken(tw.RawKey, "nosuchkey", tw.Subject, tw.Issuer, now-300, now+300, "ab")
	case "kid-outside-key-dir":
		ok2 := t.Bytes("other-key", 32)
		tw.Creds["/simkeys.staging/motd"] = hs.Scramble(ok2)
		tok = refcodec.MakeToken(ok2, "../simkeys.staging/motd", tw.Subject, tw.Issuer, now-300, now+300, "ab")
	case "no-exp":
		// no expiry claim: the token ends when it is older than the maximum age (issued 300 s before that)
		tok = tw.Token(now-maxAge+300, refcodec.NoExp)
	}
	// move the clock
	s.Go("clock", func() {
		if p.Clock > 0 {
			s.Sleep("verify", time.Duration(p.Clock)*time.Second)
		}
	})
	s.Run()
	cfg := &security.SecurityConfig{TokenMaxAge: maxAge}
	tw.ServerToken(cfg)
	_, err := security.VerifyIDToken(tok, cfg)
	// standalone verification reads the clock once, at an instant the harness knows exactly
	// (whole virtual seconds, no exchange during which time passes): the reference is applied
	// at that very second, boundaries included (a token is expired from the second exp on)
	vd, why := -1, ""
	if ok, r := refcodec.ParseToken(tok).Judge(keys, hs.Now(), maxAge); ok {
		vd, why = 1, r
	} else {
		why = r
	}
	sig := fmt.Sprintf("%s/clock+%d", p.Var, p.Clock)
	if err == nil && vd < 0 {
		s.Violate("verifier-accepted-invalid-token", sig, fmt.Sprintf("VerifyIDToken accepted a token the reference rejects (%s); bit %d", why, p.Bit))
		return
	}
	if err != nil && vd > 0 {
		s.Violate("verifier-rejected-valid-token", sig, fmt.Sprintf("VerifyIDToken rejected (%v) a token the reference accepts; bit %d", err, p.Bit))
		return
	}
	s.Probe(fmt.Sprintf("verify-agrees:%d", vd))
}

// runClaimed: a scripted AKEP2 client that holds a valid token (and so knows its
// signature) but claims another identity - consistently in both of its messages and
// in its proof - against the real server. The server may refuse; if it accepts, the
// identity it records must still be the token's subject.
func runClaimed(s *kernel.Sim, p params) {
	t := s.T
	tw := hs.NewTokenWorld(t)
	now := hs.Now()
	tok := tw.Token(now-10, now+3600)
	parts := strings.Split(tok, ".")
	wire := parts[0] + "." + parts[1]
	sigBytes := refcodec.ParseToken(tok).Sig
	claimed := "root@pool.sim"
	idStep1, idStep3, idMAC := claimed, claimed, claimed
	switch p.Var {
	case "claim-in-step1-only":
		idStep3, idMAC = tw.Subject, tw.Subject
	case "claim-everywhere":
	case "honest":
		idStep1, idStep3, idMAC = tw.Subject, tw.Subject, tw.Subject
	case "claim-but-prove-as-subject":
		idMAC = tw.Subject
	}
	ctx := context.Background()
	net := simnet.New(s, simnet.Config{})
	pr := hs.NewPair(net, 1)
	scfg := hs.Cfg(security.SecurityRequired, security.SecurityOptional, []security.AuthMethod{security.AuthToken}, hs.AES, security.NoCommand)
	tw.ServerToken(scfg)
	scfg.TokenMaxAge = maxAge
	var sn *security.SecurityNegotiation
	var serr error
	var rec *puppet.Record
	s.Go("server", func() {
		sn, serr = security.NewAuthenticator(scfg, pr.SS).ServerHandshake(ctx)
		pr.SE.Close()
	})
	s.Go("scripted-client", func() {
		rec = puppet.Client(ctx, pr.CS, puppet.ClientOpts{Methods: []string{"TOKEN"}, Auth: "REQUIRED", Enc: "OPTIONAL", Command: 60021,
			OnSelect: func(ctx context.Context, st *stream.Stream, sel int) (string, string, error) {
				k := refcodec.AKEP2MacKey(sigBytes, wire)
				ra := t.Bytes("ra", 256)
				m1 := message.NewMessageForStream(st)
				_ = m1.PutBytes(ctx, refcodec.SerializeFields([]refcodec.Field{{Kind: 'i', Int: 0}, {Kind: 'i', Int: int64(len(idStep1))}, {Kind: 's', Data: []byte(idStep1)}, {Kind: 's', Data: []byte(wire)}, {Kind: 'i', Int: 256}, {Kind: 'b', Data: ra}}))
				if err := m1.FinishMessage(ctx); err != nil {
					return "", "", err
				}
				raw, err := st.ReceiveCompleteMessage(ctx)
				if err != nil {
					return "", "", err
				}
				f2, err := refcodec.ParseFields(raw, refcodec.AKEP2Step2)
				if err != nil {
					return "", "", fmt.Errorf("step 2: %w", err)
				}
				var rb []byte
				for _, f := range f2 {
					if f.Name == "rb" {
						rb = f.Data
					}
				}
				mac := refcodec.AKEP2ClientMAC(k, idMAC, rb)
				m3 := message.NewMessageForStream(st)
				_ = m3.PutBytes(ctx, refcodec.SerializeFields([]refcodec.Field{{Kind: 'i', Int: 0}, {Kind: 'i', Int: int64(len(idStep3))}, {Kind: 's', Data: []byte(idStep3)}, {Kind: 'i', Int: int64(len(rb))}, {Kind: 'b', Data: rb}, {Kind: 'i', Int: int64(len(mac))}, {Kind: 'b', Data: mac}}))
				if err := m3.FinishMessage(ctx); err != nil {
					return "", "", err
				}
				return "TOKEN", idStep1, nil
			}})
		pr.CE.Close()
	})
	s.Run()
	pr.CE.CloseQuiet()
	pr.SE.CloseQuiet()
	desc := fmt.Sprintf("scripted client holding a valid token for %q, variant %s: server err=%v, client record err=%v", tw.Subject, p.Var, serr, rec.Err)
	s.Note("%s", desc)
	if serr == nil {
		if want := subjectUser(tok); sn.User != want {
			s.Violate("identity-not-from-token-subject", "claimed/"+p.Var, fmt.Sprintf("%s: the server recorded user %q; the token's subject says %q", desc, sn.User, want))
			return
		}
		s.Probe("scripted-client-accepted-as-subject")
	} else {
		s.Probe("scripted-client-refused")
		if p.Var == "honest" {
			s.Violate("valid-token-refused", "claimed/honest", desc+" (the scripted client is honest here: reference AKEP2 client and real server disagree)")
		}
	}
}

func run(s *kernel.Sim, c *scen.Case) {
	var p params
	c.P(&p)
	hs.Init()
	switch p.Kind {
	case "claimed":
		runClaimed(s, p)
	case "token":
		runToken(s, p)
	case "serverkey":
		runServerKey(s, p)
	case "relay":
		runRelay(s, p)
	case "verify":
		runVerify(s, p)
	}
}

func gen(g *scen.Gen) {
	seed := g.Seed * 32452843
	emit := func(p params) bool {
		seed++
		return g.Emit(scen.Case{Seed: seed, Params: scen.Params(p)})
	}
	for _, v := range []string{"valid", "other-key", "unknown-kid", "kid-outside-key-dir", "kid-outside-key-dir-nested", "no-kid-pool", "other-subject", "too-old-already", "fresh-enough", "expires-later", "no-exp-too-old", "no-exp-fresh"} {
		if !emit(params{Kind: "token", Var: v}) {
			return
		}
	}
	// the same with SSL listed after TOKEN: a failed token exchange may fall back to a method that proves no client identity
	for _, v := range []string{"valid", "other-key", "unknown-kid", "too-old-already", "other-subject"} {
		if !emit(params{Kind: "token", Var: v, SSL: true}) {
			return
		}
	}
	for _, v := range []string{"valid", "expires-during", "expires-later", "too-old-during", "fresh-enough", "no-exp-too-old-during", "no-exp-fresh"} {
		for _, d := range []int{5, 30} {
			if !emit(params{Kind: "token", Var: v, Delay: d}) {
				return
			}
		}
	}
	for _, v := range []string{"honest", "claim-everywhere", "claim-in-step1-only", "claim-but-prove-as-subject"} {
		if !emit(params{Kind: "claimed", Var: v}) {
			return
		}
	}
	for _, v := range []string{"different-key-same-kid", "no-key", "empty-key"} {
		if !emit(params{Kind: "serverkey", Var: v}) {
			return
		}
	}
	// field-level relay mutations
	if !emit(params{Kind: "relay"}) {
		return
	}
	layouts := map[int][]refcodec.Field{1: refcodec.AKEP2Step1, 2: refcodec.AKEP2Step2, 3: refcodec.AKEP2Step3}
	for msg := 1; msg <= 3; msg++ {
		for _, f := range layouts[msg] {
			switch f.Kind {
			case 'i':
				if f.Name == "status" {
					for _, v := range []int{1, -1, 7} {
						if !emit(params{Kind: "relay", Msg: msg, Field: f.Name, Mut: "status", Bit: v}) {
							return
						}
					}
				}
			case 's':
				muts := []string{"wrong", "truncated", "empty"}
				if f.Name == "client-id" && msg == 1 {
					muts = append(muts, "identity")
				}
				for _, m := range muts {
					if !emit(params{Kind: "relay", Msg: msg, Field: f.Name, Mut: m}) {
						return
					}
				}
			case 'b':
				for _, m := range []string{"wrong", "truncated", "empty"} {
					if !emit(params{Kind: "relay", Msg: msg, Field: f.Name, Mut: m}) {
						return
					}
				}
			}
		}
		if !emit(params{Kind: "relay", Msg: msg, Mut: "trailing"}) {
			return
		}
	}
	// every bit of the client's token (header, payload, signature)
	step := 1
	if g.Quick() {
		step = 8
	}
	for bit := int(g.Seed) % step; bit < 420*8; bit += step {
		if !emit(params{Kind: "token", Var: "bitflip", Bit: bit}) {
			return
		}
	}
	// standalone verification: same variants x clock positions around exp (+300) and max age (+300)
	for _, clock := range []int{0, 298, 299, 300, 301, 302, 900} {
		for _, v := range []string{"valid", "other-key", "unknown-kid", "kid-outside-key-dir", "no-exp"} {
			if !emit(params{Kind: "verify", Var: v, Clock: clock}) {
				return
			}
		}
		for bit := int(g.Seed) % (step * 4); bit < 420*8; bit += step * 4 {
			if !emit(params{Kind: "verify", Var: "bitflip", Bit: bit, Clock: clock}) {
				return
			}
		}
	}
}

var scenarios = []*scen.Scenario{{Name: "token", Enumerated: true, Gen: gen, Run: run}}

func TestScenario(t *testing.T) { scen.Main(t, "C11", scenarios) }
