// C16 — a minted claim id and its import yield one shared, working session.
// A minter node and an importer node, each with its own cache, on the simulated
// network: generated mint options, real handshakes naming the session in both
// dial directions, an importer with a corrupted secret, and lock-step expiry on
// the virtual clock.
package c16

import (
	"bytes"
	"context"
	"fmt"
	"strings"
	"testing"
	"time"

	"cedarsim/hs"
	"cedarsim/kernel"
	"cedarsim/refcodec"
	"cedarsim/scen"
	"cedarsim/simnet"

	"github.com/bbockelm/cedar/security"
	"github.com/bbockelm/cedar/stream"
)

type params struct {
	Kind string `json:"kind"`
}

var sinfuls = []string{
	"<10.0.0.2:9618>",
	"<10.0.0.2:9618?addrs=10.0.0.2-9618&noUDP&sock=startd_1234_abcd>",
	"<10.0.0.2:9618?sock=slot#1_x&alias=a#b>",
	"<[fe80::1]:9618?noUDP&sock=startd_7_ff>",
	"<10.0.0.2:9618?addrs=[--1]-9618+10.0.0.2-9618&alias=host.example&noUDP>",
}

type node struct {
	name  string
	addr  string
	cache *security.SessionCache
}

type world struct {
	s   *kernel.Sim
	net *simnet.Net
	bg  context.Context
	n   int
	// set by dialByCommand for the next dial
	byCmd    bool
	byCmdTag string
}

type xres struct {
	cerr, serr   error
	cn, sn       *security.SecurityNegotiation
	sGot, cGot   []byte
	sxerr, cxerr error
	c2s, s2c     []byte
}

var msgC = []byte("hello-from-dialer-over-claim-session")
var msgS = []byte("hello-from-listener-over-claim-session")

// dial makes `from` open a connection to `to` naming session sid, then they exchange a message each way.
// dialByCommand: the dialer does not name the session; it must find it through the
// (tag, peer address, command) mapping that minting / importing installed.
func (w *world) dialByCommand(from, to *node, tag string, cmd int) *xres {
	w.byCmdTag, w.byCmd = tag, true
	defer func() { w.byCmd = false }()
	return w.dial(from, to, "", cmd)
}

func (w *world) dial(from, to *node, sid string, cmd int) *xres {
	w.n++
	r := &xres{}
	ce, se := w.net.Pipe(fmt.Sprintf("%s>%s#%d", from.name, to.name, w.n), fmt.Sprintf("%s<%s#%d", to.name, from.name, w.n), simnet.Addr(from.addr[:strings.LastIndex(from.addr, ":")]+":50123"), simnet.Addr(to.addr))
	ce.Tap()
	se.Tap()
	cs, ss := stream.NewStream(ce), stream.NewStream(se)
	byCmd, byTag := w.byCmd, w.byCmdTag
	w.s.Go(fmt.Sprintf("dialer%d", w.n), func() {
		cfg := hs.Cfg(security.SecurityRequired, security.SecurityRequired, []security.AuthMethod{security.AuthClaimToBe}, hs.AES, cmd)
		cfg.SessionCache = from.cache
		cfg.SessionID = sid
		if byCmd {
			cfg.SecurityTag = byTag
			cfg.PeerName = "<" + to.addr + ">"
		}
		r.cn, r.cerr = security.NewAuthenticator(cfg, cs).ClientHandshake(w.bg)
		if r.cerr != nil {
			ce.Close()
			return
		}
		if r.cxerr = cs.SendMessage(w.bg, msgC); r.cxerr == nil {
			r.cGot, r.cxerr = cs.ReceiveCompleteMessage(w.bg)
		}
		ce.Close()
	})
	w.s.Go(fmt.Sprintf("listener%d", w.n), func() {
		cfg := hs.Cfg(security.SecurityRequired, security.SecurityRequired, []security.AuthMethod{security.AuthClaimToBe}, hs.AES, security.NoCommand)
		cfg.SessionCache = to.cache
		r.sn, r.serr = security.NewAuthenticator(cfg, ss).ServerHandshake(w.bg)
		if r.serr != nil {
			se.Close()
			return
		}
		if r.sGot, r.sxerr = ss.ReceiveCompleteMessage(w.bg); r.sxerr == nil {
			r.sxerr = ss.SendMessage(w.bg, msgS)
		}
		se.Close()
	})
	w.s.Run()
	ce.CloseQuiet()
	se.CloseQuiet()
	r.c2s, r.s2c = ce.SentBytes(), se.SentBytes()
	return r
}

func (w *world) sleep(d time.Duration) {
	w.s.Go("sleeper", func() { w.s.Sleep("c16", d) })
	w.s.Run()
}

func boolp(b bool) *bool { return &b }

func run(s *kernel.Sim, c *scen.Case) {
	hs.Init()
	t := s.T
	ncfg := simnet.DrawConfig(t)
	if ncfg.MaxLatency > 50*time.Millisecond {
		ncfg.MaxLatency = 50 * time.Millisecond // a connection must not outlast the 3 s margins around the lifetime
	}
	if ncfg.Window == 1 {
		ncfg.Window = 64
	}
	w := &world{s: s, net: simnet.New(s, ncfg), bg: context.Background()}
	s.Quantum, s.IdleMax = 3*time.Second, 1
	A := &node{name: "A", addr: "10.0.0.2:9618", cache: security.NewSessionCache()}
	B := &node{name: "B", addr: "10.0.0.7:9618", cache: security.NewSessionCache()}
	C := &node{name: "C", addr: "10.6.6.6:9618", cache: security.NewSessionCache()}
	// generated mint options
	opts := security.MintClaimOptions{
		Sinful:      kernel.Pick(t, "sinful", sinfuls...),
		Birthdate:   int64(946684800 - t.Choose("bday", 100000)),
		SequenceNum: 1 + t.Choose("seq", 5000),
	}
	switch t.Choose("enc", 3) {
	case 1:
		opts.Encryption = boolp(true)
	case 2:
		opts.Encryption = boolp(false)
	}
	switch t.Choose("integ", 3) {
	case 1:
		opts.Integrity = boolp(true)
	case 2:
		opts.Integrity = boolp(false)
	}
	opts.CryptoMethods = kernel.Pick(t, "ciphers", "", "AES", "AES,BLOWFISH", "AES,3DES,BLOWFISH", "AESGCM")
	opts.RemoteVersion = kernel.Pick(t, "version", "", "25.4.0", "$CondorVersion: 25.4.0 2025-10-31 BuildID: 847437 PackageID: 25.4.0-0.847437 GitSHA: a6507f91 RC $")
	var lifetime time.Duration
	if t.Choose("life", 2) == 1 {
		lifetime = time.Duration(kernel.Pick(t, "lifetime", 30, 600, 86400, 40*365*86400, 100*365*86400)) * time.Second // (the last two end after 2038-01-19 on the simulated calendar, which starts in 2000)
	}
	opts.Lifetime = lifetime
	nvc := t.Choose("nvc", 4)
	for i := 0; i < nvc; i++ {
		opts.ValidCommands = append(opts.ValidCommands, kernel.Pick(t, "vc", 443, 444, 60021, 404, 1))
	}
	if t.Choose("peeraddr", 2) == 1 {
		opts.PeerAddr = "<" + B.addr + ">"
	}
	opts.Tag = kernel.Pick(t, "tag", "", "", "claimtag")
	desc := fmt.Sprintf("sinful=%s enc=%v integ=%v ciphers=%q version=%q lifetime=%v validcmds=%v peeraddr=%q", opts.Sinful, ptr(opts.Encryption), ptr(opts.Integrity), opts.CryptoMethods, opts.RemoteVersion, lifetime, opts.ValidCommands, opts.PeerAddr)
	sigOpts := fmt.Sprintf("sinful#%d/ciphers=%s/lifetime=%v", indexOf(sinfuls, opts.Sinful), opts.CryptoMethods, lifetime > 0)
	// mint at an arbitrary instant, not on a whole second of the simulated clock
	w.sleep(time.Duration(t.Choose("pre-mint-ms", 2500)) * time.Millisecond)
	minted, err := security.MintClaimSession(A.cache, opts)
	if err != nil {
		s.Violate("mint-failed", sigOpts, fmt.Sprintf("%s: %v", desc, err))
		return
	}
	mintedAt := time.Now()
	claim := minted.ClaimID()
	if t.Chance("garbled-import-first", 1, 4) {
		// the importer first received the claim id garbled in its last (secret) character and imported
		// that; the import of the genuine claim id that follows is the one that must count
		g := []byte(claim)
		if g[len(g)-1] == '0' {
			g[len(g)-1] = '1'
		} else {
			g[len(g)-1] = '0'
		}
		_, _ = security.ImportClaimSession(B.cache, string(g), security.ClaimSessionOptions{PeerAddr: "<" + A.addr + ">", Tag: opts.Tag})
		s.Probe("genuine-import-after-garbled-one")
	}
	sid, err := security.ImportClaimSession(B.cache, claim, security.ClaimSessionOptions{PeerAddr: "<" + A.addr + ">", Tag: opts.Tag})
	if err != nil {
		s.Violate("import-failed", sigOpts, fmt.Sprintf("%s: import of a freshly minted claim id failed: %v", desc, err))
		return
	}
	s.Note("%s sid=%s", desc, sid)
	// same session identifier, key, policy and expiry on both sides
	if sid != minted.SessionID() {
		s.Violate("session-id-differs", sigOpts, fmt.Sprintf("%s: minted %q imported %q", desc, minted.SessionID(), sid))
		return
	}
	ea, okA := A.cache.Lookup(sid)
	eb, okB := B.cache.Lookup(sid)
	if !okA || !okB {
		s.Violate("session-not-registered", sigOpts, fmt.Sprintf("%s: minter has it=%v importer has it=%v", desc, okA, okB))
		return
	}
	if ea.KeyInfo() == nil || eb.KeyInfo() == nil || !bytes.Equal(ea.KeyInfo().Data, eb.KeyInfo().Data) || len(ea.KeyInfo().Data) != 32 {
		s.Violate("derived-key-differs", sigOpts, desc)
		return
	}
	for _, attr := range []string{"Encryption", "Integrity", "CryptoMethods", "ValidCommands", "SessionExpires"} {
		va, _ := ea.Policy().EvaluateAttrString(attr)
		vb, _ := eb.Policy().EvaluateAttrString(attr)
		if va != vb {
			s.Violate("policy-differs", attr, fmt.Sprintf("%s: %s is %q on the minter and %q on the importer", desc, attr, va, vb))
			return
		}
	}
	if !ea.Expiration().Equal(eb.Expiration()) {
		s.Violate("expiry-differs", sigOpts, fmt.Sprintf("%s: minter %v importer %v", desc, ea.Expiration(), eb.Expiration()))
		return
	}
	// what the caller asked for is what the policy says
	wantYN := func(p *bool) string {
		if p == nil || *p {
			return "YES"
		}
		return "NO"
	}
	if v, _ := ea.Policy().EvaluateAttrString("Encryption"); v != wantYN(opts.Encryption) {
		s.Violate("policy-roundtrip", "Encryption", fmt.Sprintf("%s: policy says Encryption=%q", desc, v))
		return
	}
	if v, _ := ea.Policy().EvaluateAttrString("Integrity"); v != wantYN(opts.Integrity) {
		s.Violate("policy-roundtrip", "Integrity", fmt.Sprintf("%s: policy says Integrity=%q", desc, v))
		return
	}
	if len(opts.ValidCommands) > 0 {
		var want []string
		for _, vc := range opts.ValidCommands {
			want = append(want, fmt.Sprint(vc))
		}
		if v, _ := eb.Policy().EvaluateAttrString("ValidCommands"); v != strings.Join(want, ",") {
			s.Violate("policy-roundtrip", "ValidCommands", fmt.Sprintf("%s: importer sees ValidCommands=%q, want %q", desc, v, strings.Join(want, ",")))
			return
		}
	}
	// the policy text embedded in the claim id, parsed back, says what the minter was asked for
	if pol, err := security.ImportSecSessionInfo(security.ParseClaimIDStrict(claim).SecSessionInfo()); err != nil {
		s.Violate("policy-roundtrip", "parse", fmt.Sprintf("%s: the embedded session info does not parse: %v", desc, err))
		return
	} else {
		wantC := opts.CryptoMethods
		if wantC == "" {
			wantC = "AES"
		}
		if v, _ := pol.EvaluateAttrString("CryptoMethods"); v != wantC {
			s.Violate("policy-roundtrip", "CryptoMethods", fmt.Sprintf("%s: minted with cipher list %q, the embedded policy reads back %q", desc, wantC, v))
			return
		}
		if txt, err := security.ExportSecSessionInfo(pol); err == nil {
			if pol2, err := security.ImportSecSessionInfo(txt); err != nil || pol2.String() != pol.String() {
				s.Violate("policy-roundtrip", "render-parse", fmt.Sprintf("%s: %q renders to %q which parses to %v (%v)", desc, pol.String(), txt, pol2, err))
				return
			}
		}
	}
	// the public form never contains the secret
	secret := security.ParseClaimIDStrict(claim).SecSessionKey()
	if secret == "" || strings.Contains(minted.PublicClaimID(), secret) || !strings.HasPrefix(claim, strings.TrimSuffix(minted.PublicClaimID(), "...")) {
		s.Violate("public-claim-id-leaks-or-malformed", sigOpts, fmt.Sprintf("%s: public form %q", desc, minted.PublicClaimID()))
		return
	}
	// both directions resume with no fresh handshake and carry traffic
	wantSid := sid
	check := func(r *xres, dir string, when string) bool {
		if r.cerr != nil || r.serr != nil {
			s.Violate("claim-session-did-not-resume", dir+"/"+when, fmt.Sprintf("%s %s (%s): dialer %v, listener %v", desc, dir, when, r.cerr, r.serr))
			return false
		}
		if !r.cn.SessionResumed || !r.sn.SessionResumed || r.sn.SessionId != wantSid {
			s.Violate("claim-session-did-not-resume", dir+"/not-resumed", fmt.Sprintf("%s %s: a fresh handshake ran instead", desc, dir))
			return false
		}
		cf, _ := refcodec.ParseFrames(r.c2s)
		sf, _ := refcodec.ParseFrames(r.s2c)
		if len(cf) != 2 || len(sf) != 2 {
			s.Violate("unexpected-wire-shape", dir, fmt.Sprintf("%s %s: expected request+message / reply+message, saw %d and %d frames (an authentication exchange ran?)", desc, dir, len(cf), len(sf)))
			return false
		}
		if r.cxerr != nil || r.sxerr != nil || !bytes.Equal(r.sGot, msgC) || !bytes.Equal(r.cGot, msgS) {
			s.Violate("claim-session-carries-no-traffic", dir+"/"+when, fmt.Sprintf("%s %s (%s): dialer %v listener %v", desc, dir, when, r.cxerr, r.sxerr))
			return false
		}
		if bytes.Contains(r.c2s, msgC) || bytes.Contains(r.s2c, msgS) {
			s.Violate("claim-session-traffic-in-clear", dir, desc)
			return false
		}
		if !r.sn.Authentication {
			s.Violate("claim-session-not-authenticated", dir, desc)
			return false
		}
		return true
	}
	if !check(w.dial(B, A, sid, 443), "importer->minter", "fresh") {
		return
	}
	if !check(w.dial(A, B, sid, 444), "minter->importer", "fresh") {
		return
	}
	s.Probe("both-directions-resume")
	// ... and without naming it, through the (tag, peer address, command) mapping that minting
	// and importing install for the commands the claim carries
	if len(opts.ValidCommands) > 0 {
		vc := opts.ValidCommands[t.Choose("bycmd", len(opts.ValidCommands))]
		if !check(w.dialByCommand(B, A, opts.Tag, vc), "importer->minter by command", "fresh") {
			return
		}
		if opts.PeerAddr != "" {
			if !check(w.dialByCommand(A, B, opts.Tag, vc), "minter->importer by command", "fresh") {
				return
			}
			s.Probe("both-directions-resume-by-command")
		}
	}
	// one character of the secret changed: another digit, the other case of a hex letter,
	// or a blank
	pos := len(claim) - 1 - t.Choose("secretpos", len(secret))
	bad := []byte(claim)
	switch kind := t.Choose("corruption", 3); {
	case kind == 1 && bad[pos] >= 'a' && bad[pos] <= 'f':
		bad[pos] -= 'a' - 'A'
	case kind == 1 && bad[pos] >= 'A' && bad[pos] <= 'F':
		bad[pos] += 'a' - 'A'
	case kind == 2 && pos == len(claim)-1:
		bad[pos] = ' '
	case bad[pos] == '0':
		bad[pos] = '1'
	default:
		bad[pos] = '0'
	}
	// the file-transfer session derived from the same claim id: both holders of the claim id
	// register it symmetrically and it resumes between them; a holder of a different secret cannot
	if t.Chance("file-transfer-session", 1, 2) {
		ftB, errB := security.ImportFileTransferSession(B.cache, claim, security.ClaimSessionOptions{PeerAddr: "<" + A.addr + ">"})
		ftA, errA := security.ImportFileTransferSession(A.cache, claim, security.ClaimSessionOptions{PeerAddr: "<" + B.addr + ">"})
		if errA != nil || errB != nil {
			s.Violate("import-failed", "file-transfer", fmt.Sprintf("%s: %v / %v", desc, errA, errB))
			return
		}
		fa, okA := A.cache.Lookup(ftA)
		fb, okB := B.cache.Lookup(ftB)
		if ftA != ftB || ftA == sid || !strings.HasSuffix(ftA, sid) || !okA || !okB {
			s.Violate("session-id-differs", "file-transfer", fmt.Sprintf("%s: file-transfer session ids %q / %q (claim session %q), registered %v/%v", desc, ftA, ftB, sid, okA, okB))
			return
		}
		if fa.KeyInfo() == nil || fb.KeyInfo() == nil || !bytes.Equal(fa.KeyInfo().Data, fb.KeyInfo().Data) || len(fa.KeyInfo().Data) != 32 {
			s.Violate("derived-key-differs", "file-transfer", desc)
			return
		}
		for _, attr := range []string{"Encryption", "Integrity"} {
			if v, _ := fb.Policy().EvaluateAttrString(attr); v != "YES" {
				s.Violate("policy-differs", "file-transfer/"+attr, fmt.Sprintf("%s: the file-transfer session has %s=%q", desc, attr, v))
				return
			}
		}
		wantSid = ftA
		okft := check(w.dial(B, A, ftA, 443), "file-transfer importer->importer", "fresh") && check(w.dial(A, B, ftA, 444), "file-transfer importer<-importer", "fresh")
		wantSid = sid
		if !okft {
			return
		}
		if _, err := security.ImportFileTransferSession(C.cache, string(bad), security.ClaimSessionOptions{PeerAddr: "<" + A.addr + ">"}); err == nil {
			r := w.dial(C, A, ftA, 443)
			if r.serr == nil && r.sxerr == nil && r.sGot != nil {
				s.Violate("wrong-secret-accepted", "file-transfer/accepted-data", fmt.Sprintf("%s: secret character %d changed, yet the file-transfer session accepted application data", desc, pos))
				return
			}
		}
		s.Probe("file-transfer-session-resumes")
	}
	// an importer holding a different secret cannot
	if _, err := security.ImportClaimSession(C.cache, string(bad), security.ClaimSessionOptions{PeerAddr: "<" + A.addr + ">"}); err == nil {
		r := w.dial(C, A, sid, 443)
		if r.serr == nil && r.sxerr == nil && r.sGot != nil {
			s.Violate("wrong-secret-accepted", "minter-accepted-data", fmt.Sprintf("%s: secret character %d changed, yet the minter accepted application data", desc, pos))
			return
		}
		if r.cerr == nil && r.cxerr == nil && bytes.Equal(r.cGot, msgS) {
			s.Violate("wrong-secret-accepted", "importer-read-reply", desc)
			return
		}
		s.Probe("wrong-secret-locked-out")
	} else {
		s.Probe("wrong-secret-import-rejected")
	}
	// lock-step expiry
	if lifetime > 24*time.Hour {
		s.Probe("lifetime-beyond-the-simulated-horizon") // expiry compared above; not lived through
	} else if lifetime > 0 {
		elapsed := time.Since(mintedAt)
		if lifetime-elapsed > 12*time.Second {
			w.sleep(lifetime - elapsed - 10*time.Second)
			if !check(w.dial(B, A, sid, 443), "importer->minter", "just-before-expiry") {
				return
			}
		}
		w.sleep(time.Until(mintedAt.Add(lifetime + 2*time.Second)))
		// (looked at before any further dial: a refused resumption makes the dialer drop its entry)
		if _, ok := A.cache.Lookup(sid); ok {
			s.Violate("expiry-not-in-lockstep", "minter-still-has-it", desc+": the announced lifetime has passed, the importer has dropped the session, the minter still holds it (its expiry moved when the session was used)")
			return
		}
		if _, ok := B.cache.Lookup(sid); ok {
			s.Violate("expiry-not-in-lockstep", "importer-still-has-it", desc)
			return
		}
		r1 := w.dial(B, A, sid, 443)
		r2 := w.dial(A, B, sid, 444)
		for i, r := range []*xres{r1, r2} {
			if r.cerr == nil && r.serr == nil {
				s.Violate("expired-claim-session-resumed", []string{"importer->minter", "minter->importer"}[i], fmt.Sprintf("%s: lifetime %v passed, yet the session resumed", desc, lifetime))
				return
			}
		}
		if _, ok := A.cache.Lookup(sid); ok {
			s.Violate("expiry-not-in-lockstep", "minter-still-has-it", desc)
			return
		}
		if _, ok := B.cache.Lookup(sid); ok {
			s.Violate("expiry-not-in-lockstep", "importer-still-has-it", desc)
			return
		}
		s.Probe("expired-in-lockstep")
	}
	for _, tk := range s.Tasks() {
		if tk.Panic != nil {
			s.Violate("panic", "c16", fmt.Sprintf("task %s: %v\n%s", tk.Name, tk.Panic, tk.Stack))
			return
		}
	}
}

func ptr(b *bool) string {
	if b == nil {
		return "default"
	}
	return fmt.Sprint(*b)
}

func indexOf(l []string, x string) int {
	for i, v := range l {
		if v == x {
			return i
		}
	}
	return -1
}

var scenarios = []*scen.Scenario{
	{Name: "mint-import", Gen: func(g *scen.Gen) {
		for i := uint64(0); ; i++ {
			if !g.Emit(scen.Case{Seed: g.Seed*1_000_003 + i, Params: scen.Params(params{Kind: "mint-import"})}) {
				return
			}
		}
	}, Run: run},
}

func TestScenario(t *testing.T) { scen.Main(t, "C16", scenarios) }
