// C03 — REQUIRED means required, and the reported handshake outcome is what
// happened. One real endpoint at a time (client or server role) against a
// scripted peer (puppet) with one deviation; all 4x4 local policies; the
// puppet's record of what ran on the wire and the wiretap are ground truth.
package c03

import (
	"bytes"
	"context"
	"fmt"
	"strings"
	"testing"

	"cedarsim/hs"
	"cedarsim/kernel"
	"cedarsim/puppet"
	"cedarsim/scen"
	"cedarsim/simnet"

	"github.com/PelicanPlatform/classad/classad"
	"github.com/bbockelm/cedar/message"
	"github.com/bbockelm/cedar/security"
)

type params struct {
	Role    string     `json:"role"` // client | server
	A       int        `json:"a"`    // own authentication level (index into hs.Levels)
	E       int        `json:"e"`    // own encryption level
	Integ   bool       `json:"integ,omitempty"`
	Methods int        `json:"methods"`
	Dev     puppet.Dev `json:"dev"`
	DevName string     `json:"dev_name"`
	PAuth   bool       `json:"pauth"` // puppet server's base decision / puppet client's advertised levels
	PEnc    bool       `json:"penc"`
	Resume  string     `json:"resume,omitempty"` // "" (full handshake) | authed-keyed | unauth-keyed | authed-keyless | unauth-keyless
	Where   string     `json:"where,omitempty"`  // resumed, server role: own | fallback (how the server reaches the session)
	Peer    string     `json:"peer,omitempty"`   // resumed, server role: "" real client | scripted (names the session id regardless)
	PerCmd  bool       `json:"percmd,omitempty"` // resumed, server role: the strict policy is the per-command one (selector), the default is permissive
	Cmd0    bool       `json:"cmd0,omitempty"`   // resumed: the command is 0 (UPDATE_STARTD_AD) instead of 60021
	ByID    bool       `json:"byid,omitempty"`   // resumed, client role: the session is named explicitly (SecurityConfig.SessionID)
}

var canary = []byte("CANARY-application-payload-7f3a9c")

var methodSets = [][]security.AuthMethod{
	{security.AuthClaimToBe},
	{security.AuthToken},
	{security.AuthToken, security.AuthClaimToBe},
}

func inList(m security.AuthMethod, l []security.AuthMethod) bool {
	for _, x := range l {
		if x == m {
			return true
		}
	}
	return false
}

func strs(l []security.AuthMethod) []string {
	var o []string
	for _, x := range l {
		o = append(o, string(x))
	}
	return o
}

func runClient(s *kernel.Sim, c *scen.Case, p params) {
	t := s.T
	ctx := context.Background()
	own := methodSets[p.Methods]
	cfg := hs.Cfg(hs.Levels[p.A], hs.Levels[p.E], own, hs.AES, 60021)
	if p.Integ {
		cfg.Integrity = security.SecurityRequired
	}
	cfg.SessionCache = security.NewSessionCache()
	tw := hs.NewTokenWorld(t)
	cfg.TrustDomain = tw.Issuer
	cfg.Token = tw.Token(hs.Now()-10, hs.Now()+3600)
	net := simnet.New(s, simnet.DrawConfig(t))
	pr := hs.NewPair(net, 1)
	var cn *security.SecurityNegotiation
	var cerr, sendErr error
	var rec *puppet.Record
	s.Go("client", func() {
		a := security.NewAuthenticator(cfg, pr.CS)
		cn, cerr = a.ClientHandshake(ctx)
		if cerr != nil {
			pr.CE.Close()
			return
		}
		sendErr = pr.CS.SendMessage(ctx, canary)
	})
	s.Go("puppet-server", func() {
		o := puppet.ServerOpts{Methods: strs(own), Authenticate: p.PAuth, Encrypt: p.PEnc, Dev: p.Dev, User: "someone@pool.sim"}
		// the puppet advertises what the client listed, plus TrustDomain/IssuerKeys so a token client offers TOKEN
		rec = puppet.Server(ctx, pr.SS, o)
		pr.SE.Close()
	})
	s.Run()
	defer func() { pr.CE.CloseQuiet(); pr.SE.CloseQuiet() }()
	judge(s, p, "client", cerr, cn, pr.CS.IsEncrypted(), rec, pr.CE.SentBytes(), own, sendErr)
}

func runServer(s *kernel.Sim, c *scen.Case, p params) {
	t := s.T
	ctx := context.Background()
	own := methodSets[p.Methods]
	cfg := hs.Cfg(hs.Levels[p.A], hs.Levels[p.E], own, hs.AES, security.NoCommand)
	if p.Integ {
		cfg.Integrity = security.SecurityRequired
	}
	tw := hs.NewTokenWorld(t)
	tw.ServerToken(cfg)
	net := simnet.New(s, simnet.DrawConfig(t))
	pr := hs.NewPair(net, 1)
	var sn *security.SecurityNegotiation
	var serr, sendErr error
	var rec *puppet.Record
	s.Go("server", func() {
		a := security.NewAuthenticator(cfg, pr.SS)
		sn, serr = a.ServerHandshake(ctx)
		if serr != nil {
			pr.SE.Close()
			return
		}
		sendErr = pr.SS.SendMessage(ctx, canary)
	})
	s.Go("puppet-client", func() {
		lv := func(b bool) string {
			if b {
				return "PREFERRED"
			}
			return "OPTIONAL"
		}
		o := puppet.ClientOpts{Methods: []string{"CLAIMTOBE"}, Auth: lv(p.PAuth), Enc: lv(p.PEnc), Command: 60021, Dev: p.Dev}
		rec = puppet.Client(ctx, pr.CS, o)
		if rec.Err == nil {
			rec.AppEncrypted = pr.CS.IsEncrypted()
			rec.AppGot, rec.AppErr = pr.CS.ReceiveCompleteMessage(ctx)
		}
		pr.CE.Close()
	})
	s.Run()
	defer func() { pr.CE.CloseQuiet(); pr.SE.CloseQuiet() }()
	judge(s, p, "server", serr, sn, pr.SS.IsEncrypted(), rec, pr.SE.SentBytes(), own, sendErr)
}

func judge(s *kernel.Sim, p params, role string, herr error, n *security.SecurityNegotiation, streamEnc bool, rec *puppet.Record, wire []byte, own []security.AuthMethod, sendErr error) {
	for _, tk := range s.Tasks() {
		if tk.Panic != nil {
			s.Violate("panic", role+"/"+p.DevName, fmt.Sprintf("task %s: %v\n%s", tk.Name, tk.Panic, tk.Stack))
			return
		}
	}
	R := security.SecurityRequired
	la, le := hs.Levels[p.A], hs.Levels[p.E]
	cell := fmt.Sprintf("%s role, own policy auth=%s enc=%s integ-required=%v methods=%s, peer deviation %q (peer base auth=%v enc=%v)", role, la, le, p.Integ, hs.MethodsName(own), p.DevName, p.PAuth, p.PEnc)
	if rec != nil {
		s.Note("%s | endpoint err=%v | puppet err=%v steps=%v", cell, herr, rec.Err, rec.Steps)
	}
	if herr != nil || n == nil {
		s.Probe("endpoint-refused")
		return
	}
	s.Probe("endpoint-succeeded")
	if rec == nil {
		return
	}
	sig := func(k string) string { return fmt.Sprintf("%s/%s/%s", role, k, p.DevName) }
	ran := rec.AuthRan
	// REQUIRED authentication: a method this endpoint listed really ran to completion
	if la == R && p.Resume == "" {
		if ran == "" {
			s.Violate("required-authentication-did-not-run", sig("auth"), cell+": handshake returned success but no authentication exchange completed on the wire")
			return
		}
		if !inList(security.AuthMethod(ran), own) {
			s.Violate("authenticated-with-unlisted-method", sig("auth-unlisted"), fmt.Sprintf("%s: success after %s, which this endpoint never listed", cell, ran))
			return
		}
	}
	if ran != "" && !inList(security.AuthMethod(ran), own) {
		s.Violate("authenticated-with-unlisted-method", sig("auth-unlisted"), fmt.Sprintf("%s: success after %s, which this endpoint never listed", cell, ran))
		return
	}
	// REQUIRED encryption/integrity: later traffic is protected
	if (le == R || p.Integ) && (!streamEnc || bytes.Contains(wire, canary)) {
		s.Violate("required-encryption-not-in-effect", sig("enc"), fmt.Sprintf("%s: handshake returned success; stream encrypted=%v, application payload visible in clear on the wire=%v", cell, streamEnc, bytes.Contains(wire, canary)))
		return
	}
	// reported flags equal reality
	if n.Encryption != streamEnc {
		s.Violate("reported-encryption-differs-from-stream", sig("flag-enc"), fmt.Sprintf("%s: reports Encryption=%v, stream encrypted=%v", cell, n.Encryption, streamEnc))
		return
	}
	if streamEnc && bytes.Contains(wire, canary) {
		s.Violate("encrypted-stream-leaks-cleartext", sig("leak"), cell)
		return
	}
	if p.Resume == "" {
		if n.Authentication != (ran != "") {
			s.Violate("reported-authentication-differs-from-wire", sig("flag-auth"), fmt.Sprintf("%s: reports Authentication=%v, exchange completed on the wire: %q", cell, n.Authentication, ran))
			return
		}
		if ran != "" && string(n.NegotiatedAuth) != ran {
			s.Violate("reported-method-differs-from-wire", sig("flag-method"), fmt.Sprintf("%s: reports method %q, %q ran", cell, n.NegotiatedAuth, ran))
			return
		}
	}
	if streamEnc {
		s.Probe("success-encrypted")
	} else {
		s.Probe("success-plaintext")
	}
	if ran != "" {
		s.Probe("success-authenticated")
	}
}

// runResumed: the endpoint under test, with its strict policy, meets a resumption of a
// session that was established earlier under a permissive policy (authenticated or not,
// with a key or without). Both peers are real cedar endpoints. Server-side sessions are
// filed in the process-wide cache; Where says whether the server under test looks there
// directly ("own") or has a cache of its own and reaches the session through the fallback.
func runResumed(s *kernel.Sim, c *scen.Case, p params) {
	t := s.T
	ctx := context.Background()
	net := simnet.New(s, simnet.DrawConfig(t))
	authed := strings.HasPrefix(p.Resume, "authed")
	keyed := strings.HasSuffix(p.Resume, "-keyed")
	m := []security.AuthMethod{security.AuthClaimToBe}
	lvA := security.SecurityNever
	if authed {
		lvA = security.SecurityRequired
	}
	cliCache := security.NewSessionCache()
	cmd := 60021
	if p.Cmd0 {
		cmd = 0
	}
	// how the session came to be: encryption merely optional on both sides, or wanted by the client
	// (so that an unauthenticated session is still one on which security was enacted), and, for
	// the unauthenticated kinds, authentication refused outright or left optional on both sides
	// with overlapping method lists (a method is then negotiated although none runs)
	lvE1 := []security.SecurityLevel{security.SecurityOptional, security.SecurityPreferred, security.SecurityRequired}[t.Choose("est.enc", 3)]
	if !keyed {
		lvE1 = security.SecurityOptional
	}
	if !authed && t.Choose("est.auth", 2) == 1 {
		lvA = security.SecurityOptional
	}
	mkC1 := func() *security.SecurityConfig {
		cfg := hs.Cfg(lvA, lvE1, m, hs.AES, cmd)
		cfg.SessionCache = cliCache
		return cfg
	}
	mkS1 := func() *security.SecurityConfig {
		ciph := hs.AES
		if !keyed {
			ciph = []security.CryptoMethod{security.CryptoBlowfish} // no common cipher: the session has no key
		}
		return hs.Cfg(lvA, security.SecurityOptional, m, ciph, security.NoCommand)
	}
	// phase 1: establish
	pr1 := hs.NewPair(net, 1)
	var n1c, n1s *security.SecurityNegotiation
	var e1c, e1s error
	s.Go("est-client", func() { n1c, e1c = security.NewAuthenticator(mkC1(), pr1.CS).ClientHandshake(ctx); pr1.CE.Close() })
	s.Go("est-server", func() { n1s, e1s = security.NewAuthenticator(mkS1(), pr1.SS).ServerHandshake(ctx); pr1.SE.Close() })
	s.Run()
	if e1c != nil || e1s != nil || n1c == nil || n1s == nil {
		s.Probe("resumed/establish-failed")
		return
	}
	if n1s.Authentication != authed {
		s.Probe("resumed/establish-unexpected-auth")
		return
	}
	// phase 2: the endpoint under test with policy (A, E, Integ)
	pr := hs.NewPair(net, 2)
	strict := func(cmd int) *security.SecurityConfig {
		cfg := hs.Cfg(hs.Levels[p.A], hs.Levels[p.E], m, hs.AES, cmd)
		if p.Integ {
			cfg.Integrity = security.SecurityRequired
		}
		return cfg
	}
	var n *security.SecurityNegotiation
	var herr, sendErr error
	var ut *simnet.Endpoint
	var utStream interface{ IsEncrypted() bool }
	if p.Role == "server" {
		ut, utStream = pr.SE, pr.SS
		cfg := strict(security.NoCommand)
		var selector func(int) *security.SecurityConfig
		if p.PerCmd {
			// the strict policy belongs to the command being resumed; the listener's default is permissive
			perCmd := cfg
			cfg = hs.Cfg(security.SecurityOptional, security.SecurityOptional, m, hs.AES, security.NoCommand)
			selector = func(c int) *security.SecurityConfig {
				if c == cmd {
					return perCmd
				}
				return nil
			}
		}
		if p.Where == "fallback" {
			cfg.SessionCache = security.NewSessionCache()
		}
		s.Go("server", func() {
			a := security.NewAuthenticator(cfg, pr.SS)
			a.ServerConfigForCommand = selector
			n, herr = a.ServerHandshake(ctx)
			if herr != nil {
				pr.SE.Close()
				return
			}
			sendErr = pr.SS.SendMessage(ctx, canary)
		})
		if p.Peer == "scripted" {
			// a requester that names the session id whatever the session is (a real client
			// does not try to resume a session it holds no key for)
			s.Go("peer-requester", func() {
				st := pr.CS
				ad := classad.New()
				_ = ad.Set("Command", cmd)
				_ = ad.Set("UseSession", "YES")
				_ = ad.Set("Sid", n1c.SessionId)
				_ = ad.Set("ResumeResponse", true)
				_ = ad.Set("RemoteVersion", "$CondorVersion: 25.4.0 2025-10-31 BuildID: 1 $")
				_ = ad.Set("CryptoMethods", "AES")
				m := message.NewMessageForStream(st)
				_ = m.PutInt(ctx, 60010)
				_ = m.PutClassAd(ctx, ad)
				if m.FinishMessage(ctx) != nil {
					pr.CE.Close()
					return
				}
				reply, err := message.NewMessageFromStream(st).GetClassAd(ctx)
				if err != nil {
					pr.CE.Close()
					return
				}
				if rc, _ := reply.EvaluateAttrString("ReturnCode"); rc != "AUTHORIZED" {
					pr.CE.Close()
					return
				}
				if k := n1c.GetSharedSecret(); len(k) > 0 {
					_ = st.SetSymmetricKey(k)
				} else {
					st.FinalizeDigests()
				}
				_, _ = st.ReceiveCompleteMessage(ctx)
				pr.CE.Close()
			})
		} else {
			s.Go("peer-client", func() {
				_, err := security.NewAuthenticator(mkC1(), pr.CS).ClientHandshake(ctx)
				if err == nil {
					_, _ = pr.CS.ReceiveCompleteMessage(ctx)
				}
				pr.CE.Close()
			})
		}
	} else {
		ut, utStream = pr.CE, pr.CS
		cfg := strict(cmd)
		cfg.SessionCache = cliCache
		if p.ByID {
			cfg.SessionID = n1c.SessionId
		}
		s.Go("client", func() {
			n, herr = security.NewAuthenticator(cfg, pr.CS).ClientHandshake(ctx)
			if herr != nil {
				pr.CE.Close()
				return
			}
			sendErr = pr.CS.SendMessage(ctx, canary)
		})
		s.Go("peer-server", func() {
			_, err := security.NewAuthenticator(mkS1(), pr.SS).ServerHandshake(ctx)
			if err == nil {
				_, _ = pr.SS.ReceiveCompleteMessage(ctx)
			}
			pr.SE.Close()
		})
	}
	s.Run()
	defer func() { pr.CE.CloseQuiet(); pr.SE.CloseQuiet() }()
	for _, tk := range s.Tasks() {
		if tk.Panic != nil {
			s.Violate("panic", "resumed/"+p.Role, fmt.Sprintf("task %s: %v\n%s", tk.Name, tk.Panic, tk.Stack))
			return
		}
	}
	_ = sendErr
	R := security.SecurityRequired
	la, le := hs.Levels[p.A], hs.Levels[p.E]
	if herr != nil || n == nil {
		s.Probe("resumed/endpoint-refused")
		return
	}
	streamEnc := utStream.IsEncrypted()
	wire := ut.SentBytes()
	cell := fmt.Sprintf("%s role, own policy auth=%s enc=%s integ-required=%v, peer resumes a session established %s (server reaches it through %s); handshake reports resumed=%v authentication=%v encryption=%v", p.Role, la, le, p.Integ, p.Resume, p.Where, n.SessionResumed, n.Authentication, n.Encryption)
	sig := fmt.Sprintf("%s/%s/%s", p.Role, p.Resume, p.Where)
	if p.Peer != "" {
		sig += "/" + p.Peer + "-requester"
	}
	if p.PerCmd {
		sig += "/per-command-policy"
	}
	if p.Cmd0 {
		sig += "/command-0"
	}
	if p.ByID {
		sig += "/named-session"
	}
	if n.SessionResumed {
		s.Probe("resumed/resumed")
		if la == R && !authed {
			s.Violate("required-authentication-not-met-by-resumed-session", sig, cell+": success although the resumed session was never authenticated")
			return
		}
		// (the statement pins the reported authentication flag for full handshakes only)
	} else {
		s.Probe("resumed/fell-back-to-full-handshake")
	}
	if (le == R || p.Integ) && (!streamEnc || bytes.Contains(wire, canary)) {
		s.Violate("required-encryption-not-in-effect", sig, fmt.Sprintf("%s: stream encrypted=%v, application payload visible in clear=%v", cell, streamEnc, bytes.Contains(wire, canary)))
		return
	}
	if n.Encryption != streamEnc {
		s.Violate("reported-encryption-differs-from-stream", sig, fmt.Sprintf("%s: stream encrypted=%v", cell, streamEnc))
		return
	}
	if streamEnc && bytes.Contains(wire, canary) {
		s.Violate("encrypted-stream-leaks-cleartext", sig, cell)
	}
}

func genResumed(g *scen.Gen) {
	seed := g.Seed * 32452843
	for _, role := range []string{"server", "client"} {
		for _, kind := range []string{"authed-keyed", "unauth-keyed", "authed-keyless", "unauth-keyless"} {
			for _, where := range []string{"own", "fallback"} {
				if role == "client" && where == "fallback" {
					continue
				}
				peers := []string{""}
				if role == "server" {
					peers = []string{"", "scripted"}
				}
				for _, peer := range peers {
					if role == "client" {
						for _, ae := range [][2]int{{0, 0}, {0, 2}, {2, 0}, {2, 2}} {
							seed++
							if !g.Emit(scen.Case{Seed: seed, Params: scen.Params(params{Role: role, A: ae[0], E: ae[1], Resume: kind, Where: where, ByID: true})}) {
								return
							}
						}
					}
					for _, variant := range []struct{ percmd, cmd0 bool }{{false, false}, {true, false}, {true, true}, {false, true}} {
						if role == "client" && variant.percmd {
							continue
						}
						if variant.percmd || variant.cmd0 {
							// the variants run the REQUIRED rows only (where a verdict is due)
							for _, ae := range [][2]int{{0, 0}, {0, 2}, {2, 0}} {
								seed++
								if !g.Emit(scen.Case{Seed: seed, Params: scen.Params(params{Role: role, A: ae[0], E: ae[1], Resume: kind, Where: where, Peer: peer, PerCmd: variant.percmd, Cmd0: variant.cmd0})}) {
									return
								}
							}
							continue
						}
						for a := 0; a < 4; a++ {
							for e := 0; e < 4; e++ {
								for _, integ := range []bool{false, true} {
									if integ && e != 2 {
										continue
									}
									seed++
									if !g.Emit(scen.Case{Seed: seed, Params: scen.Params(params{Role: role, A: a, E: e, Integ: integ, Resume: kind, Where: where, Peer: peer})}) {
										return
									}
								}
							}
						}
					}
				}
			}
		}
	}
}

func run(s *kernel.Sim, c *scen.Case) {
	var p params
	c.P(&p)
	hs.Init()
	if p.Resume != "" {
		runResumed(s, c, p)
		return
	}
	if p.Role == "client" {
		runClient(s, c, p)
	} else {
		runServer(s, c, p)
	}
}

type namedDev struct {
	name string
	dev  puppet.Dev
}

var serverDevs = []namedDev{
	{"honest", puppet.Dev{}},
	{"auth-NO", puppet.Dev{AuthAnswer: "NO"}},
	{"auth-YES", puppet.Dev{AuthAnswer: "YES"}},
	{"enc-NO", puppet.Dev{EncAnswer: "NO"}},
	{"enc-NO-skip-key", puppet.Dev{EncAnswer: "NO", SkipKeyInstall: true}},
	{"auth-NO-enc-NO", puppet.Dev{AuthAnswer: "NO", EncAnswer: "NO", SkipKeyInstall: true}},
	{"ecdh-omit", puppet.Dev{ECDH: "omit"}},
	{"ecdh-truncate", puppet.Dev{ECDH: "truncate"}},
	{"ecdh-random", puppet.Dev{ECDH: "random"}},
	{"ecdh-garbage", puppet.Dev{ECDH: "garbage"}},
	{"no-common-cipher", puppet.Dev{NoCommonCipher: true}},
	{"select-claimtobe-regardless", puppet.Dev{AuthAnswer: "YES", SelectBit: puppet.BitClaimToBe}},
	{"advertise-and-select-claimtobe", puppet.Dev{AuthAnswer: "YES", AdvertiseExtra: "CLAIMTOBE", SelectBit: puppet.BitClaimToBe}},
	{"advertise-fs-select-claimtobe", puppet.Dev{AuthAnswer: "YES", AdvertiseExtra: "FS,CLAIMTOBE", SelectBit: puppet.BitClaimToBe}},
	{"select-several-bits", puppet.Dev{AuthAnswer: "YES", SelectBit: puppet.BitClaimToBe | puppet.BitToken}},
	{"select-zero", puppet.Dev{AuthAnswer: "YES", SelectZero: true}},
	// two-step selections: an invalid answer first, then a single bit - the second answer is judged
	// against what the client's retry logic made of the first
	{"several-bits-then-claimtobe", puppet.Dev{AuthAnswer: "YES", SelectSeq: []int{puppet.BitClaimToBe | puppet.BitToken | puppet.BitFS, puppet.BitClaimToBe}}},
	{"unoffered-bits-then-claimtobe", puppet.Dev{AuthAnswer: "YES", SelectSeq: []int{puppet.BitClaimToBe | puppet.BitFS, puppet.BitClaimToBe}}},
	{"zero-then-claimtobe", puppet.Dev{AuthAnswer: "YES", SelectSeq: []int{0, puppet.BitClaimToBe}}},
	{"all-bits-twice-then-claimtobe", puppet.Dev{AuthAnswer: "YES", SelectSeq: []int{0xffff, 0xffff, puppet.BitClaimToBe}}},
	{"postauth-DENIED", puppet.Dev{ReturnCode: "DENIED"}},
	{"postauth-in-clear", puppet.Dev{PostAuthClear: true}},
	{"postauth-other-key", puppet.Dev{PostAuthOther: true}},
	{"postauth-secret-marker", puppet.Dev{PostAuthMarker: true}},
	{"negotiation-DENIED", puppet.Dev{NegReturnCode: "DENIED"}},
	{"claim-rejected", puppet.Dev{AuthAnswer: "YES", ClaimFail: true}},
}

var clientDevs = []namedDev{
	{"honest", puppet.Dev{}},
	{"auth-NEVER", puppet.Dev{ClientAuth: "NEVER"}},
	{"auth-OPTIONAL", puppet.Dev{ClientAuth: "OPTIONAL"}},
	{"enc-NEVER", puppet.Dev{ClientEnc: "NEVER"}},
	{"enc-OPTIONAL-skip-key", puppet.Dev{ClientEnc: "OPTIONAL", SkipKeyInstall: true}},
	{"ecdh-omit", puppet.Dev{ECDH: "omit"}},
	{"ecdh-truncate", puppet.Dev{ECDH: "truncate"}},
	{"ecdh-random", puppet.Dev{ECDH: "random"}},
	{"ecdh-garbage", puppet.Dev{ECDH: "garbage"}},
	{"no-common-cipher", puppet.Dev{NoCommonCipher: true}},
	{"bitmask-unlisted", puppet.Dev{ClientBitmask: puppet.BitFS}},
	{"bitmask-all", puppet.Dev{ClientBitmask: 0xffff}},
	{"claim-failure", puppet.Dev{ClaimFail: true}},
}

func gen(g *scen.Gen) {
	seed := g.Seed * 15485863
	for _, role := range []string{"client", "server"} {
		devs := serverDevs
		if role == "server" {
			devs = clientDevs
		}
		for mi := range methodSets {
			for a := 0; a < 4; a++ {
				for e := 0; e < 4; e++ {
					for _, integ := range []bool{false, true} {
						if integ && e != 2 {
							continue // integrity REQUIRED with encryption OPTIONAL only (one extra column)
						}
						for _, d := range devs {
							for pa := 0; pa < 2; pa++ {
								for pe := 0; pe < 2; pe++ {
									seed++
									if !g.Emit(scen.Case{Seed: seed, Params: scen.Params(params{Role: role, A: a, E: e, Integ: integ, Methods: mi, Dev: d.dev, DevName: d.name, PAuth: pa == 1, PEnc: pe == 1})}) {
										return
									}
								}
							}
						}
					}
				}
			}
		}
	}
}

var scenarios = []*scen.Scenario{
	{Name: "deviating-peer", Enumerated: true, Gen: gen, Run: run},
	{Name: "resumed", Enumerated: true, Gen: genResumed, Run: run},
}

func TestScenario(t *testing.T) { scen.Main(t, "C03", scenarios) }
