// C03 — REQUIRED means required, and the reported handshake outcome is what
// happened. One real endpoint at a time (client or server role) against a
// scripted peer (puppet) with one deviation; all 4x4 local policies; the
// puppet's record of what ran on the wire and the wiretap are ground truth.
package c03

import (
	"bytes"
	"context"
	"fmt"
	"testing"

	"cedarsim/hs"
	"cedarsim/kernel"
	"cedarsim/puppet"
	"cedarsim/scen"
	"cedarsim/simnet"

	"github.com/bbockelm/cedar/security"
)

type params struct {
	Role    string     `json:"role"` // client | server
	A       int        `json:"a"`    // own authentication level (index into hs.Levels)
	E       int        `json:"e"`    // own encryption level
	Integ   bool       `json:"integ,omitempty"`
	Methods int        `json:"methods"`
	Dev     puppet.Dev `json:"dev"`
	DevName string     `json:"dev_name"`
	PAuth   bool       `json:"pauth"` // puppet server's base decision / puppet client's advertised levels
	PEnc    bool       `json:"penc"`
	Resume  string     `json:"resume,omitempty"` // "", "unauth-session", "keyless-session"
}

var canary = []byte("CANARY-application-payload-7f3a9c")

var methodSets = [][]security.AuthMethod{
	{security.AuthClaimToBe},
	{security.AuthToken},
	{security.AuthToken, security.AuthClaimToBe},
}

func inList(m security.AuthMethod, l []security.AuthMethod) bool {
	for _, x := range l {
		if x == m {
			return true
		}
	}
	return false
}

func strs(l []security.AuthMethod) []string {
	var o []string
	for _, x := range l {
		o = append(o, string(x))
	}
	return o
}

func runClient(s *kernel.Sim, c *scen.Case, p params) {
	t := s.T
	ctx := context.Background()
	own := methodSets[p.Methods]
	cfg := hs.Cfg(hs.Levels[p.A], hs.Levels[p.E], own, hs.AES, 60021)
	if p.Integ {
		cfg.Integrity = security.SecurityRequired
	}
	cfg.SessionCache = security.NewSessionCache()
	tw := hs.NewTokenWorld(t)
	cfg.TrustDomain = tw.Issuer
	cfg.Token = tw.Token(hs.Now()-10, hs.Now()+3600)
	net := simnet.New(s, simnet.DrawConfig(t))
	pr := hs.NewPair(net, 1)
	var cn *security.SecurityNegotiation
	var cerr, sendErr error
	var rec *puppet.Record
	s.Go("client", func() {
		a := security.NewAuthenticator(cfg, pr.CS)
		cn, cerr = a.ClientHandshake(ctx)
		if cerr != nil {
			pr.CE.Close()
			return
		}
		sendErr = pr.CS.SendMessage(ctx, canary)
	})
	s.Go("puppet-server", func() {
		o := puppet.ServerOpts{Methods: strs(own), Authenticate: p.PAuth, Encrypt: p.PEnc, Dev: p.Dev, User: "someone@pool.sim"}
		// the puppet advertises what the client listed, plus TrustDomain/IssuerKeys so a token client offers TOKEN
		rec = puppet.Server(ctx, pr.SS, o)
		pr.SE.Close()
	})
	s.Run()
	defer func() { pr.CE.CloseQuiet(); pr.SE.CloseQuiet() }()
	judge(s, p, "client", cerr, cn, pr.CS.IsEncrypted(), rec, pr.CE.SentBytes(), own, sendErr)
}

func runServer(s *kernel.Sim, c *scen.Case, p params) {
	t := s.T
	ctx := context.Background()
	own := methodSets[p.Methods]
	cfg := hs.Cfg(hs.Levels[p.A], hs.Levels[p.E], own, hs.AES, security.NoCommand)
	if p.Integ {
		cfg.Integrity = security.SecurityRequired
	}
	tw := hs.NewTokenWorld(t)
	tw.ServerToken(cfg)
	net := simnet.New(s, simnet.DrawConfig(t))
	pr := hs.NewPair(net, 1)
	var sn *security.SecurityNegotiation
	var serr, sendErr error
	var rec *puppet.Record
	s.Go("server", func() {
		a := security.NewAuthenticator(cfg, pr.SS)
		sn, serr = a.ServerHandshake(ctx)
		if serr != nil {
			pr.SE.Close()
			return
		}
		sendErr = pr.SS.SendMessage(ctx, canary)
	})
	s.Go("puppet-client", func() {
		lv := func(b bool) string {
			if b {
				return "PREFERRED"
			}
			return "OPTIONAL"
		}
		o := puppet.ClientOpts{Methods: []string{"CLAIMTOBE"}, Auth: lv(p.PAuth), Enc: lv(p.PEnc), Command: 60021, Dev: p.Dev}
		rec = puppet.Client(ctx, pr.CS, o)
		if rec.Err == nil {
			rec.AppEncrypted = pr.CS.IsEncrypted()
			rec.AppGot, rec.AppErr = pr.CS.ReceiveCompleteMessage(ctx)
		}
		pr.CE.Close()
	})
	s.Run()
	defer func() { pr.CE.CloseQuiet(); pr.SE.CloseQuiet() }()
	judge(s, p, "server", serr, sn, pr.SS.IsEncrypted(), rec, pr.SE.SentBytes(), own, sendErr)
}

func judge(s *kernel.Sim, p params, role string, herr error, n *security.SecurityNegotiation, streamEnc bool, rec *puppet.Record, wire []byte, own []security.AuthMethod, sendErr error) {
	for _, tk := range s.Tasks() {
		if tk.Panic != nil {
			s.Violate("panic", role+"/"+p.DevName, fmt.Sprintf("task %s: %v\n%s", tk.Name, tk.Panic, tk.Stack))
			return
		}
	}
	R := security.SecurityRequired
	la, le := hs.Levels[p.A], hs.Levels[p.E]
	cell := fmt.Sprintf("%s role, own policy auth=%s enc=%s integ-required=%v methods=%s, peer deviation %q (peer base auth=%v enc=%v)", role, la, le, p.Integ, hs.MethodsName(own), p.DevName, p.PAuth, p.PEnc)
	if rec != nil {
		s.Note("%s | endpoint err=%v | puppet err=%v steps=%v", cell, herr, rec.Err, rec.Steps)
	}
	if herr != nil || n == nil {
		s.Probe("endpoint-refused")
		return
	}
	s.Probe("endpoint-succeeded")
	if rec == nil {
		return
	}
	sig := func(k string) string { return fmt.Sprintf("%s/%s/%s", role, k, p.DevName) }
	ran := rec.AuthRan
	// REQUIRED authentication: a method this endpoint listed really ran to completion
	if la == R && p.Resume == "" {
		if ran == "" {
			s.Violate("required-authentication-did-not-run", sig("auth"), cell+": handshake returned success but no authentication exchange completed on the wire")
			return
		}
		if !inList(security.AuthMethod(ran), own) {
			s.Violate("authenticated-with-unlisted-method", sig("auth-unlisted"), fmt.Sprintf("%s: success after %s, which this endpoint never listed", cell, ran))
			return
		}
	}
	if ran != "" && !inList(security.AuthMethod(ran), own) {
		s.Violate("authenticated-with-unlisted-method", sig("auth-unlisted"), fmt.Sprintf("%s: success after %s, which this endpoint never listed", cell, ran))
		return
	}
	// REQUIRED encryption/integrity: later traffic is protected
	if (le == R || p.Integ) && (!streamEnc || bytes.Contains(wire, canary)) {
		s.Violate("required-encryption-not-in-effect", sig("enc"), fmt.Sprintf("%s: handshake returned success; stream encrypted=%v, application payload visible in clear on the wire=%v", cell, streamEnc, bytes.Contains(wire, canary)))
		return
	}
	// reported flags equal reality
	if n.Encryption != streamEnc {
		s.Violate("reported-encryption-differs-from-stream", sig("flag-enc"), fmt.Sprintf("%s: reports Encryption=%v, stream encrypted=%v", cell, n.Encryption, streamEnc))
		return
	}
	if streamEnc && bytes.Contains(wire, canary) {
		s.Violate("encrypted-stream-leaks-cleartext", sig("leak"), cell)
		return
	}
	if p.Resume == "" {
		if n.Authentication != (ran != "") {
			s.Violate("reported-authentication-differs-from-wire", sig("flag-auth"), fmt.Sprintf("%s: reports Authentication=%v, exchange completed on the wire: %q", cell, n.Authentication, ran))
			return
		}
		if ran != "" && string(n.NegotiatedAuth) != ran {
			s.Violate("reported-method-differs-from-wire", sig("flag-method"), fmt.Sprintf("%s: reports method %q, %q ran", cell, n.NegotiatedAuth, ran))
			return
		}
	}
	if streamEnc {
		s.Probe("success-encrypted")
	} else {
		s.Probe("success-plaintext")
	}
	if ran != "" {
		s.Probe("success-authenticated")
	}
}

func run(s *kernel.Sim, c *scen.Case) {
	var p params
	c.P(&p)
	hs.Init()
	if p.Role == "client" {
		runClient(s, c, p)
	} else {
		runServer(s, c, p)
	}
}

type namedDev struct {
	name string
	dev  puppet.Dev
}

var serverDevs = []namedDev{
	{"honest", puppet.Dev{}},
	{"auth-NO", puppet.Dev{AuthAnswer: "NO"}},
	{"auth-YES", puppet.Dev{AuthAnswer: "YES"}},
	{"enc-NO", puppet.Dev{EncAnswer: "NO"}},
	{"enc-NO-skip-key", puppet.Dev{EncAnswer: "NO", SkipKeyInstall: true}},
	{"auth-NO-enc-NO", puppet.Dev{AuthAnswer: "NO", EncAnswer: "NO", SkipKeyInstall: true}},
	{"ecdh-omit", puppet.Dev{ECDH: "omit"}},
	{"ecdh-truncate", puppet.Dev{ECDH: "truncate"}},
	{"ecdh-random", puppet.Dev{ECDH: "random"}},
	{"ecdh-garbage", puppet.Dev{ECDH: "garbage"}},
	{"no-common-cipher", puppet.Dev{NoCommonCipher: true}},
	{"select-claimtobe-regardless", puppet.Dev{AuthAnswer: "YES", SelectBit: puppet.BitClaimToBe}},
	{"advertise-and-select-claimtobe", puppet.Dev{AuthAnswer: "YES", AdvertiseExtra: "CLAIMTOBE", SelectBit: puppet.BitClaimToBe}},
	{"advertise-fs-select-claimtobe", puppet.Dev{AuthAnswer: "YES", AdvertiseExtra: "FS,CLAIMTOBE", SelectBit: puppet.BitClaimToBe}},
	{"select-several-bits", puppet.Dev{AuthAnswer: "YES", SelectBit: puppet.BitClaimToBe | puppet.BitToken}},
	{"select-zero", puppet.Dev{AuthAnswer: "YES", SelectZero: true}},
	{"postauth-DENIED", puppet.Dev{ReturnCode: "DENIED"}},
	{"postauth-in-clear", puppet.Dev{PostAuthClear: true}},
	{"postauth-other-key", puppet.Dev{PostAuthOther: true}},
	{"negotiation-DENIED", puppet.Dev{NegReturnCode: "DENIED"}},
	{"claim-rejected", puppet.Dev{AuthAnswer: "YES", ClaimFail: true}},
}

var clientDevs = []namedDev{
	{"honest", puppet.Dev{}},
	{"auth-NEVER", puppet.Dev{ClientAuth: "NEVER"}},
	{"auth-OPTIONAL", puppet.Dev{ClientAuth: "OPTIONAL"}},
	{"enc-NEVER", puppet.Dev{ClientEnc: "NEVER"}},
	{"enc-OPTIONAL-skip-key", puppet.Dev{ClientEnc: "OPTIONAL", SkipKeyInstall: true}},
	{"ecdh-omit", puppet.Dev{ECDH: "omit"}},
	{"ecdh-truncate", puppet.Dev{ECDH: "truncate"}},
	{"ecdh-random", puppet.Dev{ECDH: "random"}},
	{"ecdh-garbage", puppet.Dev{ECDH: "garbage"}},
	{"no-common-cipher", puppet.Dev{NoCommonCipher: true}},
	{"bitmask-unlisted", puppet.Dev{ClientBitmask: puppet.BitFS}},
	{"bitmask-all", puppet.Dev{ClientBitmask: 0xffff}},
	{"claim-failure", puppet.Dev{ClaimFail: true}},
}

func gen(g *scen.Gen) {
	seed := g.Seed * 15485863
	for _, role := range []string{"client", "server"} {
		devs := serverDevs
		if role == "server" {
			devs = clientDevs
		}
		for mi := range methodSets {
			for a := 0; a < 4; a++ {
				for e := 0; e < 4; e++ {
					for _, integ := range []bool{false, true} {
						if integ && e != 2 {
							continue // integrity REQUIRED with encryption OPTIONAL only (one extra column)
						}
						for _, d := range devs {
							for pa := 0; pa < 2; pa++ {
								for pe := 0; pe < 2; pe++ {
									seed++
									if !g.Emit(scen.Case{Seed: seed, Params: scen.Params(params{Role: role, A: a, E: e, Integ: integ, Methods: mi, Dev: d.dev, DevName: d.name, PAuth: pa == 1, PEnc: pe == 1})}) {
										return
									}
								}
							}
						}
					}
				}
			}
		}
	}
}

var scenarios = []*scen.Scenario{{Name: "deviating-peer", Enumerated: true, Gen: gen, Run: run}}

func TestScenario(t *testing.T) { scen.Main(t, "C03", scenarios) }
