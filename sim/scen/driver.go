// Package scen is the common driver of all property scenarios: case
// generation and sharding, one synctest bubble per case, result collection,
// replay and tape minimisation. It is controlled through environment variables
// by /verif/vcheck.
package scen

import (
	"encoding/json"
	"fmt"
	"io"
	"log/slog"
	mrand "math/rand"
	"os"
	"runtime"
	"sort"
	"strconv"
	"strings"
	"testing"
	"testing/cryptotest"
	"testing/synctest"
	"time"

	"cedarsim/kernel"
)

// Case is one simulated run: a scenario, its parameters, and the seed (or the
// recorded tape) that decides everything else.
type Case struct {
	Scenario string          `json:"scenario"`
	Params   json.RawMessage `json:"params,omitempty"`
	Seed     uint64          `json:"seed"`
	Tape     []uint32        `json:"tape,omitempty"`
	UseTape  bool            `json:"use_tape,omitempty"`
}

// P decodes the case parameters into v.
func (c *Case) P(v any) {
	if len(c.Params) == 0 {
		return
	}
	if err := json.Unmarshal(c.Params, v); err != nil {
		panic("bad case params: " + err.Error())
	}
}

// Params encodes v as case parameters.
func Params(v any) json.RawMessage {
	b, err := json.Marshal(v)
	if err != nil {
		panic(err)
	}
	return b
}

// Gen hands cases to the driver. Emit returns false when the driver wants no more.
type Gen struct {
	Tier  string
	Seed  uint64
	emit  func(c Case) bool
	Count int
	// Probe runs one case immediately (outside the accounting) so that a
	// generator can measure a fault-free baseline before enumerating faults.
	Probe func(c Case) RunOutcome
}

func (g *Gen) Emit(c Case) bool { g.Count++; return g.emit(c) }

// Quick reports whether the tier is quick.
func (g *Gen) Quick() bool { return g.Tier != "thorough" }

// Scenario is one kind of simulated run of a property.
type Scenario struct {
	Name string
	// Enumerated scenarios list a finite catalogue; the driver reports whether
	// all of it was run. Random scenarios emit seeds until the budget ends.
	Enumerated bool
	// Weight is the share of the time budget for random scenarios (default 1).
	Weight int
	Gen    func(g *Gen)
	Run    func(s *kernel.Sim, c *Case)
	// Setup runs outside the bubble, once per case, before Run (optional).
	Setup func(c *Case)
	// WallLimit, if > 0, is a real-time budget per case: exceeding it means the code
	// under test spins without reaching a simulator primitive, which the scenario
	// treats as a violation (class "no-progress"). The process exits after reporting.
	WallLimit time.Duration
	// ResidualNondeterminism, if non-empty, names a source of nondeterminism inside
	// the code under test that the simulator cannot own (e.g. Go's random choice
	// among several ready select cases); a run whose immediate re-run differs is then
	// counted instead of being treated as a harness error.
	ResidualNondeterminism string
}

// Result is what one worker process reports.
type Result struct {
	Property    string                    `json:"property"`
	Tier        string                    `json:"tier"`
	Seed        uint64                    `json:"seed"`
	Shard       string                    `json:"shard"`
	Evaluations int                       `json:"evaluations"`
	Nontrivial  int                       `json:"nontrivial"`
	Hashes      []string                  `json:"hashes"`
	Steps       uint64                    `json:"steps"`
	SimTimeS    float64                   `json:"sim_time_s"`
	WallS       float64                   `json:"wall_s"`
	Faults      map[string]int            `json:"faults"`
	Probes      map[string]int            `json:"probes"`
	PerScenario map[string]*ScenarioStats `json:"per_scenario"`
	Violations  []FoundViolation          `json:"violations"`
	Samples     []Sample                  `json:"samples"`
	Internal    []string                  `json:"internal_errors"`
	HashList    []string                  `json:"hash_list,omitempty"`
}

type ScenarioStats struct {
	Enumerated bool `json:"enumerated"`
	Emitted    int  `json:"emitted"`
	Run        int  `json:"run"`
	Complete   bool `json:"complete"`
	Quiescent  int  `json:"quiescent"`
	Overrun    int  `json:"overrun"`
	Rounds     int  `json:"extra_rounds"` // further complete or partial sweeps of an enumerated catalogue under other seeds
}

type FoundViolation struct {
	kernel.Violation
	Case  Case     `json:"case"`
	Trace []string `json:"trace,omitempty"`
	Notes []string `json:"notes,omitempty"`
}

type Sample struct {
	Case      Case           `json:"case"`
	Steps     uint64         `json:"steps"`
	Forks     int            `json:"sched_forks"`
	Faults    map[string]int `json:"faults,omitempty"`
	TraceHead []string       `json:"trace_head,omitempty"`
	Hash      string         `json:"hash"`
}

// RunOutcome is the outcome of one case.
type RunOutcome struct {
	Sim        *kernel.Sim
	Tape       []uint32
	Internal   string
	Violations []kernel.Violation
}

func init() {
	slog.SetDefault(slog.New(slog.NewTextHandler(io.Discard, nil)))
}

// RunCase executes one case in a fresh bubble.
// OnStuck is called (from a goroutine outside the bubble, on the real clock) when a
// case of a scenario with a WallLimit does not finish in time: code under test is
// spinning without ever reaching a simulator primitive. It must not return.
var OnStuck func(sc *Scenario, c *Case)

// CurrentCaseFile, when set, receives the descriptor of the case about to run for
// scenarios with a WallLimit, so that a crash of the whole process (e.g. a runaway
// allocation hitting the address-space limit) can be attributed to it.
var CurrentCaseFile string

func RunCase(t *testing.T, sc *Scenario, c *Case, trace bool) (out RunOutcome) {
	if sc.Setup != nil {
		sc.Setup(c)
	}
	if sc.WallLimit > 0 {
		if CurrentCaseFile != "" {
			b, _ := json.Marshal(c)
			_ = os.WriteFile(CurrentCaseFile, b, 0o644)
		}
		if OnStuck != nil {
			cc := *c
			tm := time.AfterFunc(sc.WallLimit, func() { OnStuck(sc, &cc) })
			defer tm.Stop()
		}
	}
	var tape *kernel.Tape
	if c.UseTape {
		tape = kernel.NewReplayTape(c.Tape)
	} else {
		tape = kernel.NewTape(c.Seed)
	}
	cryptotest.SetGlobalRandom(t, c.Seed)
	mrand.Seed(int64(c.Seed))
	var sim *kernel.Sim
	func() {
		defer func() {
			if r := recover(); r != nil {
				msg := fmt.Sprint(r)
				if strings.Contains(msg, "deadlock: main bubble goroutine has exited") {
					if sim != nil {
						sim.Probes["leaked-goroutines"]++
					}
					return
				}
				out.Internal = "panic in bubble: " + msg
			}
		}()
		bubble(t, func(t *testing.T) {
			sim = kernel.NewSim(tape)
			sim.TraceOn = trace
			defer func() {
				if r := recover(); r != nil {
					buf := make([]byte, 1<<14)
					buf = buf[:runtime.Stack(buf, false)]
					out.Internal = fmt.Sprintf("panic in scenario root: %v\n%s", r, buf)
				}
			}()
			sc.Run(sim, c)
		})
	}()
	out.Sim = sim
	out.Tape = tape.Rec
	if sim != nil {
		if sim.PostRun != nil && out.Internal == "" {
			sim.PostRun()
		}
		if kernel.RaceBuild {
			for _, rep := range newRaceReports() {
				if !raceInvolvesCedar(rep) {
					// neither access was made by (or on behalf of) cedar code: an artefact of running
					// un-instrumented simulator code under the detector, not a statement about cedar
					sim.Probes["race-report-without-cedar-frame"]++
					if os.Getenv("VERIF_DEBUG_RACE") != "" {
						fmt.Fprintln(os.Stderr, "RACE-OUTSIDE-CEDAR:", rep)
					}
					continue
				}
				sim.Violations = append(sim.Violations, kernel.Violation{Class: "data-race", Sig: RaceSignature(rep), Msg: rep})
			}
		}
		out.Violations = sim.Violations
	}
	return out
}

// overRSS reports (checked every 64 cases) whether the process has outgrown
// VERIF_MAX_RSS_MB. The race detector's own bookkeeping grows with every goroutine and
// synchronisation object ever created and is never returned, so a race-built worker ends
// its round early instead of growing without bound; vcheck starts the next round in a
// fresh process.
var rssCalls, rssLimitMB = 0, envInt("VERIF_MAX_RSS_MB", 0)

func overRSS() bool {
	if rssLimitMB <= 0 {
		return false
	}
	rssCalls++
	if rssCalls%64 != 0 {
		return false
	}
	b, err := os.ReadFile("/proc/self/statm")
	if err != nil {
		return false
	}
	var size, resident int
	fmt.Sscan(string(b), &size, &resident)
	return resident*os.Getpagesize()>>20 > rssLimitMB
}

// bubble runs f in a synctest bubble. Under the race detector the testing package
// fails (and stops) the test a bubble belongs to when a race was reported during
// it; a throw-away subtest takes that failure so that the driver carries on and
// reports the race itself, attributed to the case.
func bubble(t *testing.T, f func(t *testing.T)) {
	if !kernel.RaceBuild {
		synctest.Test(t, f)
		return
	}
	t.Run("case", func(t2 *testing.T) { synctest.Test(t2, f) })
}

var raceLogOff int64

// newRaceReports returns the race detector reports written since the last call.
// The worker runs with GORACE=log_path=<file> halt_on_error=0, so that a report is
// attributed to the case that was running and the process carries on.
func newRaceReports() []string {
	lp := ""
	for _, f := range strings.Fields(os.Getenv("GORACE")) {
		if strings.HasPrefix(f, "log_path=") {
			lp = f[len("log_path="):]
		}
	}
	if lp == "" {
		return nil
	}
	b, err := os.ReadFile(fmt.Sprintf("%s.%d", lp, os.Getpid()))
	if err != nil || int64(len(b)) <= raceLogOff {
		return nil
	}
	txt := string(b[raceLogOff:])
	raceLogOff = int64(len(b))
	var out []string
	for _, part := range strings.Split(txt, "==================") {
		if strings.Contains(part, "WARNING: DATA RACE") {
			if len(part) > 6000 {
				part = part[:6000]
			}
			out = append(out, strings.TrimSpace(part))
		}
	}
	return out
}

// raceInvolvesCedar: at least one of the two access stacks (not the goroutine-creation
// stacks) contains a frame of the module under test. Every access cedar makes, directly
// or through a library it calls, has such a frame, because cedar is compiled instrumented.
func raceInvolvesCedar(rep string) bool {
	if i := strings.Index(rep, "\nGoroutine "); i >= 0 {
		rep = rep[:i]
	}
	for _, l := range strings.Split(rep, "\n") {
		l = strings.TrimSpace(l)
		if strings.HasPrefix(l, "github.com/bbockelm/cedar/") && !strings.HasPrefix(l, "github.com/bbockelm/cedar/verifhook.") {
			return true
		}
	}
	return false
}

// RaceSignature names a race by the first non-runtime function of each of the two accesses.
func RaceSignature(rep string) string {
	var fns []string
	lines := strings.Split(rep, "\n")
	for i := 0; i < len(lines); i++ {
		l := strings.TrimSpace(lines[i])
		if !(strings.Contains(l, " at 0x") && strings.HasSuffix(l, ":")) || strings.HasPrefix(l, "Goroutine") {
			continue
		}
		fn := "?"
		for j := i + 1; j < len(lines) && strings.TrimSpace(lines[j]) != ""; j += 2 {
			f := strings.TrimSpace(lines[j])
			if strings.HasPrefix(f, "runtime.") || strings.HasPrefix(f, "internal/") || strings.HasPrefix(f, "sync.") || strings.HasPrefix(f, "sync/") {
				continue
			}
			fn = strings.TrimSuffix(f, "()")
			break
		}
		fn = strings.TrimPrefix(fn, "github.com/bbockelm/cedar/")
		fns = append(fns, fn)
	}
	sort.Strings(fns)
	if len(fns) > 2 {
		fns = fns[:2]
	}
	return strings.Join(fns, "<->")
}

func envInt(name string, def int) int {
	if v := os.Getenv(name); v != "" {
		if n, err := strconv.Atoi(v); err == nil {
			return n
		}
	}
	return def
}

// Main is the entry point of every scenario test binary.
func Main(t *testing.T, property string, scenarios []*Scenario) {
	mode := os.Getenv("VERIF_MODE")
	if mode == "" {
		mode = "run"
	}
	byName := map[string]*Scenario{}
	for _, sc := range scenarios {
		byName[sc.Name] = sc
	}
	switch mode {
	case "run":
		runMode(t, property, scenarios)
	case "replay", "shrink":
		path := os.Getenv("VERIF_REPLAY")
		data, err := os.ReadFile(path)
		if err != nil {
			t.Fatalf("cannot read replay file: %v", err)
		}
		var rf ReplayFile
		if err := json.Unmarshal(data, &rf); err != nil {
			t.Fatalf("bad replay file: %v", err)
		}
		sc := byName[rf.Case.Scenario]
		if sc == nil {
			t.Fatalf("unknown scenario %q", rf.Case.Scenario)
		}
		if mode == "replay" {
			replayMode(t, sc, &rf)
		} else {
			shrinkMode(t, sc, &rf)
		}
	default:
		t.Fatalf("unknown VERIF_MODE %q", mode)
	}
}

// ReplayFile is the on-disk form of a violation.
type ReplayFile struct {
	Property  string           `json:"property"`
	Case      Case             `json:"case"`
	Violation kernel.Violation `json:"violation"`
	Trace     []string         `json:"trace,omitempty"`
	Notes     []string         `json:"notes,omitempty"`
	CedarRev  string           `json:"cedar_rev,omitempty"`
	Minimised bool             `json:"minimised"`
	// GoMaxProcs is the processor count of the worker that found the violation (set by
	// vcheck where a check varies it); the replay runs with the same count.
	GoMaxProcs *int `json:"gomaxprocs,omitempty"`
	ShrinkLog string           `json:"shrink_log,omitempty"`
}

func writeJSON(path string, v any) {
	b, err := json.MarshalIndent(v, "", " ")
	if err != nil {
		panic(err)
	}
	if err := os.WriteFile(path, b, 0o644); err != nil {
		panic(err)
	}
}

func runMode(t *testing.T, property string, scenarios []*Scenario) {
	tier := os.Getenv("VERIF_TIER")
	if tier == "" {
		tier = "quick"
	}
	seed := uint64(envInt("VERIF_SEED", 1))
	shard, nshards := 0, 1
	if v := os.Getenv("VERIF_SHARD"); v != "" {
		fmt.Sscanf(v, "%d/%d", &shard, &nshards)
	}
	budget := time.Duration(envInt("VERIF_BUDGET_S", 20)) * time.Second
	only := os.Getenv("VERIF_SCENARIO")
	maxCases := envInt("VERIF_MAX_CASES", 0)
	hashList := os.Getenv("VERIF_HASHLIST") != ""
	res := &Result{Property: property, Tier: tier, Seed: seed, Shard: fmt.Sprintf("%d/%d", shard, nshards),
		Faults: map[string]int{}, Probes: map[string]int{}, PerScenario: map[string]*ScenarioStats{}}
	hashes := map[uint64]struct{}{}
	seenSig := map[string]bool{}
	start := time.Now()
	if out := os.Getenv("VERIF_OUT"); out != "" {
		CurrentCaseFile = out + ".cur"
	}
	OnStuck = func(sc *Scenario, c *Case) {
		// the bubble is stuck in a spin; nothing else in this process can be trusted to finish
		res.Violations = append(res.Violations, FoundViolation{Violation: kernel.Violation{Class: "no-progress", Sig: sc.Name + "/" + stuckSig(c),
			Msg: fmt.Sprintf("the code under test did not reach a simulator primitive or return within %v of real time (spinning on peer-controlled input)", sc.WallLimit)}, Case: *c})
		res.Evaluations++
		res.WallS = time.Since(start).Seconds()
		res.Nontrivial = len(hashes)
		res.Hashes = nil
		if out := os.Getenv("VERIF_OUT"); out != "" {
			b, _ := json.Marshal(res)
			_ = os.WriteFile(out, b, 0o644)
		}
		fmt.Println("STUCK-CASE: reported as no-progress; exiting")
		os.Exit(0)
	}

	// Budget split: enumerated scenarios first (they should complete), random ones share the rest by weight.
	var enum, random []*Scenario
	totalW := 0
	for _, sc := range scenarios {
		if only != "" && sc.Name != only {
			continue
		}
		if sc.Enumerated {
			enum = append(enum, sc)
		} else {
			random = append(random, sc)
			w := sc.Weight
			if w <= 0 {
				w = 1
			}
			totalW += w
		}
	}
	deadline := start.Add(budget)

	// runScenario sweeps sc once; the returned function sweeps an enumerated catalogue
	// again under another seed (reports false when the budget cut it short).
	runScenario := func(sc *Scenario, until time.Time) func() bool {
		st := &ScenarioStats{Enumerated: sc.Enumerated}
		res.PerScenario[sc.Name] = st
		idx := 0
		stopped := false
		var sub *testing.T
		g := &Gen{Tier: tier, Seed: seed}
		g.Probe = func(c Case) RunOutcome {
			c.Scenario = sc.Name
			return RunCase(t, sc, &c, false)
		}
		g.emit = func(c Case) bool {
			i := idx
			idx++
			if st.Rounds == 0 {
				st.Emitted++
			}
			if i%nshards != shard {
				return true
			}
			if time.Now().After(until) || (maxCases > 0 && st.Run >= maxCases) || overRSS() {
				stopped = true
				return false
			}
			c.Scenario = sc.Name
			_ = sub
			traceThis := os.Getenv("VERIF_TRACECASE") != "" && envInt("VERIF_TRACECASE", -1) == res.Evaluations
			oc := RunCase(t, sc, &c, traceThis)
			if traceThis && oc.Sim != nil { // debugging aid for determinism self-tests: the full event log of one case
				cj, _ := json.Marshal(c)
				_ = os.WriteFile(os.Getenv("VERIF_OUT")+".trace", []byte(string(cj)+"\n"+strings.Join(oc.Sim.Trace, "\n")+"\n"), 0o644)
			}
			st.Run++
			res.Evaluations++
			if oc.Internal != "" {
				if len(res.Internal) < 20 {
					cj, _ := json.Marshal(c)
					res.Internal = append(res.Internal, sc.Name+": "+oc.Internal+" case="+string(cj))
				}
				return true
			}
			sim := oc.Sim
			res.Steps += sim.Step
			res.SimTimeS += sim.EndAt.Seconds()
			if hashList {
				res.HashList = append(res.HashList, strconv.FormatUint(sim.Hash(), 36))
			}
			for k, v := range sim.AllFaults() {
				res.Faults[k] += v
			}
			for k, v := range sim.AllProbes() {
				res.Probes[k] += v
			}
			if sim.Quiescent {
				st.Quiescent++
			}
			if sim.Overrun {
				st.Overrun++
			}
			nfault := 0
			for _, v := range sim.AllFaults() {
				nfault += v
			}
			if nfault > 0 || sim.SchedForks > 0 {
				h := sim.Hash()
				if _, ok := hashes[h]; !ok {
					hashes[h] = struct{}{}
				}
			}
			if len(res.Samples) < 3 || (st.Run == 1 && len(res.Samples) < 12) {
				oc2 := RunCase(t, sc, &c, true)
				if oc2.Sim != nil {
					head := oc2.Sim.Trace
					if len(head) > 40 {
						head = head[:40]
					}
					res.Samples = append(res.Samples, Sample{Case: c, Steps: oc2.Sim.Step, Forks: oc2.Sim.SchedForks,
						Faults: oc2.Sim.AllFaults(), TraceHead: head, Hash: fmt.Sprintf("%016x", oc2.Sim.Hash())})
					if oc2.Sim.Hash() != sim.Hash() {
						if sc.ResidualNondeterminism != "" {
							// a documented source the simulator does not own (see the scenario); counted
							res.Probes["nondeterministic-rerun"]++
						} else {
							res.Internal = append(res.Internal, fmt.Sprintf("%s: nondeterministic re-run: hash %016x vs %016x seed=%d", sc.Name, sim.Hash(), oc2.Sim.Hash(), c.Seed))
						}
					}
				}
			}
			for _, v := range oc.Violations {
				key := v.Class + "/" + v.Sig
				if seenSig[key] {
					continue
				}
				seenSig[key] = true
				cc := c
				cc.Tape = oc.Tape
				res.Violations = append(res.Violations, FoundViolation{Violation: v, Case: cc, Notes: sim.Notes})
			}
			return true
		}
		sc.Gen(g)
		st.Complete = !stopped
		st.Emitted = idx
		return func() bool {
			if !st.Complete || stopped || st.Rounds >= 1000 {
				return false
			}
			st.Rounds++
			idx = 0
			g.Seed = seed + uint64(st.Rounds)*7_777_777
			sc.Gen(g)
			return !stopped
		}
	}
	enumUntil := start.Add(budget * 3 / 4)
	if len(random) == 0 {
		enumUntil = deadline
	}
	var again []func() bool
	for _, sc := range enum {
		again = append(again, runScenario(sc, enumUntil))
	}
	// Enumerated catalogues that finished early are swept again, in turn, under further
	// seeds (other transport schedules, keys, payloads) while budget remains - only when
	// the property has no random scenario to spend the time on.
	for len(random) == 0 && maxCases == 0 && time.Now().Before(enumUntil) {
		progressed := false
		for _, f := range again {
			if f() {
				progressed = true
			}
		}
		if !progressed {
			break
		}
	}
	remain := time.Until(deadline)
	if remain < 0 {
		remain = 0
	}
	cur := time.Now()
	for _, sc := range random {
		w := sc.Weight
		if w <= 0 {
			w = 1
		}
		cur = cur.Add(remain * time.Duration(w) / time.Duration(totalW))
		_ = runScenario(sc, cur)
	}
	res.WallS = time.Since(start).Seconds()
	res.Nontrivial = len(hashes)
	hs := make([]uint64, 0, len(hashes))
	for h := range hashes {
		hs = append(hs, h)
	}
	sort.Slice(hs, func(i, j int) bool { return hs[i] < hs[j] })
	if len(hs) > 400000 {
		hs = hs[:400000]
	}
	for _, h := range hs {
		res.Hashes = append(res.Hashes, strconv.FormatUint(h, 36))
	}
	if out := os.Getenv("VERIF_OUT"); out != "" {
		b, _ := json.Marshal(res)
		if err := os.WriteFile(out, b, 0o644); err != nil {
			t.Fatalf("write result: %v", err)
		}
		if kernel.RaceBuild {
			os.Exit(0) // races were turned into violations case by case; testing's own verdict is not used
		}
	} else {
		b, _ := json.MarshalIndent(struct {
			Eval, Nontrivial int
			Faults, Probes   map[string]int
			Per              map[string]*ScenarioStats
			Viol             []FoundViolation
			Internal         []string
			Wall             float64
		}{res.Evaluations, res.Nontrivial, res.Faults, res.Probes, res.PerScenario, res.Violations, res.Internal, res.WallS}, "", " ")
		fmt.Println(string(b))
	}
}

func sameViolation(vs []kernel.Violation, want kernel.Violation) bool {
	for _, v := range vs {
		if v.Class == want.Class && v.Sig == want.Sig {
			return true
		}
	}
	return false
}

// StuckSig lets a scenario name the shape of a stuck case (entry point, mutation
// class) for the violation signature; the default is the empty string.
var StuckSig func(c *Case) string

func stuckSig(c *Case) string {
	if StuckSig != nil {
		return StuckSig(c)
	}
	return ""
}

func replayMode(t *testing.T, sc *Scenario, rf *ReplayFile) {
	c := rf.Case
	OnStuck = func(sc *Scenario, c *Case) {
		if rf.Violation.Class == "no-progress" {
			fmt.Println("REPLAY-STATUS: reproduced (no progress within", sc.WallLimit, ")")
		} else {
			fmt.Println("REPLAY-STATUS: internal-error: case stuck")
		}
		os.Exit(0)
	}
	oc := RunCase(t, sc, &c, true)
	if os.Getenv("VERIF_REPLAY_TWICE") != "" && oc.Sim != nil {
		// debugging aid: does the first case of a process differ from later runs of the same case?
		c2 := rf.Case
		oc2 := RunCase(t, sc, &c2, true)
		a, b := oc.Sim.Trace, oc2.Sim.Trace
		for i := 0; i < len(a) && i < len(b); i++ {
			if a[i] != b[i] {
				fmt.Printf("TWICE: first difference at event %d\n  1st: %v\n  2nd: %v\n", i, a[max(0, i-3):min(len(a), i+3)], b[max(0, i-3):min(len(b), i+3)])
				break
			}
		}
		fmt.Printf("TWICE: hashes %016x %016x lengths %d %d\n", oc.Sim.Hash(), oc2.Sim.Hash(), len(a), len(b))
	}
	status := "not-reproduced"
	if oc.Internal != "" {
		status = "internal-error: " + oc.Internal
	} else if sameViolation(oc.Violations, rf.Violation) {
		status = "reproduced"
	}
	out := map[string]any{"status": status, "violations": oc.Violations}
	if oc.Sim != nil {
		out["trace"] = oc.Sim.Trace
		out["notes"] = oc.Sim.Notes
		out["hash"] = fmt.Sprintf("%016x", oc.Sim.Hash())
	}
	if p := os.Getenv("VERIF_OUT"); p != "" {
		writeJSON(p, out)
	}
	fmt.Println("REPLAY-STATUS:", status)
}

// shrinkMode minimises the tape of a failing case while the same violation
// signature persists, then rewrites the replay file (with trace).
func shrinkMode(t *testing.T, sc *Scenario, rf *ReplayFile) {
	budget := time.Duration(envInt("VERIF_SHRINK_S", 45)) * time.Second
	maxRuns := envInt("VERIF_SHRINK_RUNS", 600)
	start := time.Now()
	runs := 0
	c := rf.Case
	// Establish the recorded tape.
	first := RunCase(t, sc, &c, false)
	runs++
	if !sameViolation(first.Violations, rf.Violation) {
		fmt.Println("SHRINK-STATUS: not-reproduced")
		return
	}
	best := append([]uint32(nil), first.Tape...)
	orig := len(best)
	try := func(cand []uint32) bool {
		if runs >= maxRuns || time.Since(start) > budget {
			return false
		}
		runs++
		cc := c
		cc.Tape = cand
		cc.UseTape = true
		oc := RunCase(t, sc, &cc, false)
		if oc.Internal == "" && sameViolation(oc.Violations, rf.Violation) {
			// adopt what was actually consumed (drops unused tail)
			best = append([]uint32(nil), oc.Tape...)
			return true
		}
		return false
	}
	// 1. shortest failing prefix (the rest reads as zeros)
	for len(best) > 0 {
		if !try(append([]uint32(nil), best[:len(best)/2]...)) {
			break
		}
	}
	// 2. delete chunks, 3. zero chunks (halving sizes)
	for size := len(best) / 2; size >= 1; size /= 2 {
		for i := 0; i+size <= len(best); {
			cand := append(append([]uint32(nil), best[:i]...), best[i+size:]...)
			if try(cand) {
				continue
			}
			allZero := true
			for _, v := range best[i : i+size] {
				if v != 0 {
					allZero = false
				}
			}
			if !allZero {
				cand = append([]uint32(nil), best...)
				for j := i; j < i+size && j < len(cand); j++ {
					cand[j] = 0
				}
				if try(cand) {
					i += size
					continue
				}
			}
			i += size
		}
		if runs >= maxRuns || time.Since(start) > budget {
			break
		}
	}
	// 4. lower single values
	for i := 0; i < len(best) && runs < maxRuns && time.Since(start) <= budget; i++ {
		for best[i] > 0 {
			cand := append([]uint32(nil), best...)
			cand[i] = best[i] / 2
			if !try(cand) {
				break
			}
			if i >= len(best) {
				break
			}
		}
	}
	// strip trailing zeros
	for len(best) > 0 && best[len(best)-1] == 0 {
		best = best[:len(best)-1]
	}
	c.Tape = best
	c.UseTape = true
	final := RunCase(t, sc, &c, true)
	if !sameViolation(final.Violations, rf.Violation) {
		// fall back to the unshrunk recorded tape
		c.Tape = first.Tape
		final = RunCase(t, sc, &c, true)
	}
	rf.Case = c
	rf.Minimised = true
	rf.ShrinkLog = fmt.Sprintf("tape %d -> %d decisions in %d runs, %.1fs", orig, len(c.Tape), runs, time.Since(start).Seconds())
	if final.Sim != nil {
		rf.Trace = final.Sim.Trace
		rf.Notes = final.Sim.Notes
		for _, v := range final.Violations {
			if v.Class == rf.Violation.Class && v.Sig == rf.Violation.Sig {
				rf.Violation = v
			}
		}
	}
	writeJSON(os.Getenv("VERIF_REPLAY"), rf)
	fmt.Println("SHRINK-STATUS: ok", rf.ShrinkLog)
}
