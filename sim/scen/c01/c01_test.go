// C01 — framed messages round-trip byte-exactly under any chunking, plain or
// encrypted. Two real cedar streams over a simulated connection; generated
// send/receive API histories in both directions at once; the oracle is the
// list of messages whose send calls all returned nil.
package c01

import (
	"bytes"
	"context"
	"errors"
	"fmt"
	"io"
	"testing"

	"cedarsim/kernel"
	"cedarsim/scen"
	"cedarsim/simnet"

	"github.com/bbockelm/cedar/message"
	"github.com/bbockelm/cedar/stream"
)

const MiB = 1 << 20

type params struct {
	Enc   bool   `json:"enc"`
	Sweep *sweep `json:"sweep,omitempty"`
	Comp  *comp  `json:"comp,omitempty"`
	// Refuse: a send the stream must refuse (too large for one frame) sits between ordinary
	// messages; Before = messages sent ahead of it (0: it would have been the first protected frame)
	Refuse *refuse `json:"refuse,omitempty"`
}

type refuse struct {
	Size   int `json:"size"`
	Before int `json:"msgs_before"`
	API    int `json:"send_api"` // sendSingle | sendWrite | sendPartial
}

// comp is one cell of the exhaustive enumeration of compositions of a short message:
// a message of Len bytes is cut after byte i+1 for every set bit i of Mask; EmptyAt >= 0
// additionally inserts a zero-length write before that piece (== number of pieces: after the last).
type comp struct {
	Len     int `json:"len"`
	Mask    int `json:"mask"`
	EmptyAt int `json:"empty_at"`
	SendAPI int `json:"send_api"`
	RecvAPI int `json:"recv_api"`
	Before  int `json:"msgs_before"`
}

// sweep is one cell of the exhaustive threshold sweep.
type sweep struct {
	Size    int `json:"size"`
	SendAPI int `json:"send_api"`
	First   int `json:"msgs_before"` // messages sent before it (0: it is the first protected frame)
}

const (
	sendSingle  = iota // SendMessage
	sendWrite          // StartMessage / WriteMessage* / EndMessage
	sendPartial        // SendPartialMessage* + SendMessage
	sendTypedB         // Message.PutBytes/PutChar + FlushFrame + FinishMessage (bytes only)
	sendTyped          // Message typed items, mirrored by typed receiver
	nSendAPIs
)

const (
	recvComplete  = iota // ReceiveCompleteMessage
	recvStartRead        // StartMessageRead / ReadMessageBytes / EndMessageRead
	recvFrames           // ReadFrame loop
	recvGetBytes         // Message.GetBytes(n...) + GetRemainingBytes
	recvRemaining        // Message.GetRemainingBytes
	nRecvAPIs
)

type item struct {
	kind byte // 'b' bytes, 'c' char, 'i' int, 's' string, 'S' PutStringBytes, 'f' flush
	n    int
	val  []byte
	ival int
}

type msgPlan struct {
	size    int
	sendAPI int
	recvAPI int
	cuts    []int  // sizes of the individual writes (sum == size) for multi-write APIs
	items   []item // typed plan
	body    []byte
	// filled by the sender
	attempted bool
	accepted  bool
	sendErr   error
	midAbort  bool // failed after bytes of it were put on the wire
	inflight  bool // still being sent when the run ended
}

var sizeClasses = []int{0, 1, 2, 5, 100, 4095, 4096, 4097, 8192, 16*1024 - 8, 16*1024 - 1, 16 * 1024, 16*1024 + 1, 16*1024 + 8, 20000, 65536}
var bigSizes = []int{MiB - 33, MiB - 32, MiB - 31, MiB - 17, MiB - 16, MiB - 15, MiB - 1, MiB, MiB + 1, 2*MiB + 7, 2*MiB + MiB/2}

func compose(t *kernel.Tape, size int) []int {
	if size == 0 {
		// zero or a few empty writes
		return make([]int, t.Choose("cuts.empty", 3))
	}
	var cuts []int
	rem := size
	k := 1 + t.Choose("cuts.k", 6)
	for i := 0; i < k-1 && rem > 0; i++ {
		var c int
		switch t.Choose("cuts.kind", 5) {
		case 0:
			c = rem / (k - i)
		case 1:
			c = 0
		case 2:
			c = 1
		case 3:
			c = kernel.Pick(t, "cuts.thr", 4095, 4096, 4097, 16384, 1)
		case 4:
			c = t.Choose("cuts.any", rem+1)
		}
		if c > rem {
			c = rem
		}
		cuts = append(cuts, c)
		rem -= c
	}
	cuts = append(cuts, rem)
	return cuts
}

func fill(t *kernel.Tape, n int, tag byte) []byte {
	b := t.Bytes("body", n)
	if n > 0 {
		b[0] = tag
	}
	return b
}

func planDirection(t *kernel.Tape, dir byte, allowBig bool) []*msgPlan {
	n := 1 + t.Choose("nmsgs", 6)
	var out []*msgPlan
	bigLeft := 0
	if allowBig {
		bigLeft = 1
	}
	for i := 0; i < n; i++ {
		m := &msgPlan{}
		if bigLeft > 0 && t.Chance("big", 1, 3) {
			bigLeft--
			m.size = kernel.Pick(t, "bigsize", bigSizes...)
		} else {
			m.size = kernel.Pick(t, "size", sizeClasses...)
			if t.Chance("size.jitter", 1, 4) {
				m.size += t.Choose("size.j", 40)
			}
		}
		m.sendAPI = t.Choose("sendapi", nSendAPIs)
		if m.sendAPI == sendTyped {
			m.items = planTyped(t, m.size)
			out = append(out, m)
			continue
		}
		m.body = fill(t, m.size, dir+byte(i))
		m.recvAPI = t.Choose("recvapi", nRecvAPIs)
		switch m.sendAPI {
		case sendWrite, sendPartial, sendTypedB:
			m.cuts = compose(t, m.size)
		}
		out = append(out, m)
	}
	return out
}

func planTyped(t *kernel.Tape, budget int) []item {
	var items []item
	k := 1 + t.Choose("typed.k", 6)
	for i := 0; i < k; i++ {
		switch t.Choose("typed.kind", 6) {
		case 0:
			n := budget / k
			items = append(items, item{kind: 'b', n: n, val: t.Bytes("tb", n)})
		case 1:
			items = append(items, item{kind: 'c', ival: t.Choose("tc", 256)})
		case 2:
			items = append(items, item{kind: 'i', ival: t.Choose("ti", 1<<30) - (1 << 29)})
		case 3, 4:
			n := budget / k
			v := t.Bytes("ts", n)
			for j := range v { // NUL-free, not the null-string marker
				if v[j] == 0 || v[j] == 0255 {
					v[j] = 'x'
				}
			}
			kd := byte('s')
			if t.Choose("typed.sb", 2) == 1 {
				kd = 'S'
			}
			items = append(items, item{kind: kd, n: n, val: v})
		case 5:
			items = append(items, item{kind: 'f'})
		}
	}
	return items
}

type dirState struct {
	plan []*msgPlan
	// receiver side
	got      [][]byte
	gotTyped int
	recvErr  error
	recvAt   int
	recvDone bool
	typedBad string
}

// lender hands each write call its bytes in ONE scratch buffer that is overwritten as soon as the
// call has returned, as a caller reusing its buffer does (the io.Writer contract: the callee must
// not keep the slice): a sender that holds on to the caller's memory ships whatever is there later.
type lender struct{ buf []byte }

func (l *lender) lend(b []byte) []byte {
	l.clobber()
	if cap(l.buf) < len(b)+32 {
		l.buf = make([]byte, 0, len(b)+32+len(b)/4)
	}
	l.buf = append(l.buf[:0], b...)
	return l.buf
}

func (l *lender) clobber() {
	full := l.buf[:cap(l.buf)]
	for i := range full {
		full[i] = 0xEE
	}
}

func send(ctx context.Context, st *stream.Stream, ep *simnet.Endpoint, m *msgPlan) {
	m.attempted = true
	var err error
	var ld lender
	defer ld.clobber()
	sentAny := false
	before := ep.BytesOut()
	switch m.sendAPI {
	case sendSingle:
		err = st.SendMessage(ctx, ld.lend(m.body))
		ld.clobber()
	case sendWrite:
		st.StartMessage()
		off := 0
		for _, c := range m.cuts {
			if err = st.WriteMessage(ctx, ld.lend(m.body[off:off+c])); err != nil {
				break
			}
			off += c
			sentAny = true
		}
		if err == nil {
			ld.clobber()
			err = st.EndMessage(ctx)
		}
	case sendPartial:
		off := 0
		for i, c := range m.cuts {
			if i == len(m.cuts)-1 {
				break
			}
			if err = st.SendPartialMessage(ctx, ld.lend(m.body[off:off+c])); err != nil {
				break
			}
			sentAny = true
			off += c
		}
		if err == nil {
			err = st.SendMessage(ctx, ld.lend(m.body[off:]))
		}
	case sendTypedB:
		mm := message.NewMessageForStream(st)
		off := 0
		for i, c := range m.cuts {
			if c == 1 {
				err = mm.PutChar(ctx, m.body[off])
			} else {
				err = mm.PutBytes(ctx, ld.lend(m.body[off:off+c]))
			}
			if err != nil {
				break
			}
			off += c
			sentAny = true
			if i%2 == 1 && i != len(m.cuts)-1 {
				ld.clobber()
				if err = mm.FlushFrame(ctx, false); err != nil {
					break
				}
			}
		}
		if err == nil {
			ld.clobber()
			err = mm.FinishMessage(ctx)
		}
	case sendTyped:
		mm := message.NewMessageForStream(st)
		for _, it := range m.items {
			switch it.kind {
			case 'b':
				err = mm.PutBytes(ctx, ld.lend(it.val))
			case 'c':
				err = mm.PutChar(ctx, byte(it.ival))
			case 'i':
				err = mm.PutInt(ctx, it.ival)
			case 's':
				err = mm.PutString(ctx, string(it.val))
			case 'S':
				err = mm.PutStringBytes(ctx, ld.lend(it.val))
			case 'f':
				ld.clobber()
				err = mm.FlushFrame(ctx, false)
			}
			if err != nil {
				break
			}
			sentAny = true
		}
		if err == nil {
			ld.clobber()
			err = mm.FinishMessage(ctx)
		}
	}
	_ = sentAny
	m.sendErr = err
	m.accepted = err == nil
	m.inflight = err != nil && errors.Is(err, simnet.ErrSimEnded)
	m.midAbort = err != nil && !m.inflight && ep.BytesOut() != before
}

func recvTyped(ctx context.Context, st *stream.Stream, m *msgPlan) (string, error) {
	mm := message.NewMessageFromStream(st)
	for idx, it := range m.items {
		switch it.kind {
		case 'b':
			got, err := mm.GetBytes(ctx, it.n)
			if err != nil {
				return "", fmt.Errorf("item %d GetBytes(%d): %w", idx, it.n, err)
			}
			if !bytes.Equal(got, it.val) {
				return fmt.Sprintf("item %d bytes differ (len %d vs %d)", idx, len(got), len(it.val)), nil
			}
		case 'c':
			got, err := mm.GetChar(ctx)
			if err != nil {
				return "", fmt.Errorf("item %d GetChar: %w", idx, err)
			}
			if got != byte(it.ival) {
				return fmt.Sprintf("item %d char %d != %d", idx, got, it.ival), nil
			}
		case 'i':
			got, err := mm.GetInt(ctx)
			if err != nil {
				return "", fmt.Errorf("item %d GetInt: %w", idx, err)
			}
			if got != it.ival {
				return fmt.Sprintf("item %d int %d != %d", idx, got, it.ival), nil
			}
		case 's', 'S':
			got, err := mm.GetString(ctx)
			if err != nil {
				return "", fmt.Errorf("item %d GetString(len %d): %w", idx, it.n, err)
			}
			if got != string(it.val) {
				return fmt.Sprintf("item %d string differs (len %d vs %d)", idx, len(got), len(it.val)), nil
			}
		}
	}
	rest, err := mm.GetRemainingBytes(ctx)
	if err != nil {
		return "", fmt.Errorf("GetRemainingBytes: %w", err)
	}
	if len(rest) != 0 {
		return fmt.Sprintf("%d trailing bytes", len(rest)), nil
	}
	return "", nil
}

func recvBytes(ctx context.Context, t *kernel.Tape, st *stream.Stream, m *msgPlan) ([]byte, error) {
	switch m.recvAPI {
	case recvComplete:
		return st.ReceiveCompleteMessage(ctx)
	case recvStartRead:
		if err := st.StartMessageRead(ctx); err != nil {
			return nil, fmt.Errorf("StartMessageRead: %w", err)
		}
		out := make([]byte, 0, m.size)
		for len(out) < m.size {
			want := m.size - len(out)
			if want > 1 {
				switch t.Choose("rb.n", 3) {
				case 1:
					want = 1 + t.Choose("rb.any", want)
				case 2:
					want = (want + 1) / 2
				}
			}
			buf := make([]byte, want)
			n, err := st.ReadMessageBytes(ctx, buf)
			if err != nil {
				return out, fmt.Errorf("ReadMessageBytes: %w", err)
			}
			if n == 0 {
				return out, fmt.Errorf("ReadMessageBytes returned 0 bytes with %d outstanding", m.size-len(out))
			}
			out = append(out, buf[:n]...)
		}
		if err := st.EndMessageRead(); err != nil {
			return out, fmt.Errorf("EndMessageRead: %w", err)
		}
		return out, nil
	case recvFrames:
		var out []byte
		for {
			d, eom, err := st.ReadFrame(ctx)
			if err != nil {
				return out, fmt.Errorf("ReadFrame: %w", err)
			}
			out = append(out, d...)
			if eom {
				return out, nil
			}
		}
	case recvGetBytes:
		mm := message.NewMessageFromStream(st)
		out := make([]byte, 0, m.size)
		for len(out) < m.size {
			want := m.size - len(out)
			if want > 1 && t.Choose("gb.n", 2) == 1 {
				want = 1 + t.Choose("gb.any", want)
			}
			d, err := mm.GetBytes(ctx, want)
			if err != nil {
				return out, fmt.Errorf("GetBytes(%d): %w", want, err)
			}
			out = append(out, d...)
		}
		rest, err := mm.GetRemainingBytes(ctx)
		if err != nil {
			return out, fmt.Errorf("GetRemainingBytes: %w", err)
		}
		return append(out, rest...), nil
	case recvRemaining:
		mm := message.NewMessageFromStream(st)
		return mm.GetRemainingBytes(ctx)
	}
	return nil, io.ErrUnexpectedEOF
}

func sizeClass(n int) string {
	switch {
	case n > MiB:
		return ">1MiB"
	case n > MiB-16:
		return "1MiB-15..1MiB"
	case n > MiB-32:
		return "1MiB-31..1MiB-16"
	case n >= 16*1024:
		return "16KiB..1MiB-32"
	default:
		return "<16KiB"
	}
}

var sendNames = []string{"SendMessage", "WriteMessage", "SendPartialMessage", "Message.PutBytes", "Message.typed"}

func run(s *kernel.Sim, c *scen.Case) {
	var p params
	c.P(&p)
	if p.Refuse != nil {
		runRefuse(s, p)
		return
	}
	t := s.T
	ctx := context.Background()
	var plans [2][]*msgPlan
	cfg := simnet.DrawConfig(t)
	if p.Comp != nil {
		c := p.Comp
		for i := 0; i < c.Before; i++ {
			plans[0] = append(plans[0], &msgPlan{size: 10, sendAPI: sendSingle, recvAPI: recvComplete, body: fill(t, 10, byte(i))})
		}
		m := &msgPlan{size: c.Len, sendAPI: c.SendAPI, recvAPI: c.RecvAPI, body: fill(t, c.Len, 0x42)}
		piece := 0
		for i := 0; i < c.Len; i++ {
			piece++
			if i == c.Len-1 || c.Mask&(1<<uint(i)) != 0 {
				m.cuts = append(m.cuts, piece)
				piece = 0
			}
		}
		if c.EmptyAt >= 0 {
			at := c.EmptyAt
			if at > len(m.cuts) {
				at = len(m.cuts)
			}
			m.cuts = append(m.cuts[:at:at], append([]int{0}, m.cuts[at:]...)...)
		}
		plans[0] = append(plans[0], m)
		plans[0] = append(plans[0], &msgPlan{size: 3, sendAPI: sendSingle, recvAPI: recvComplete, body: []byte("end")})
	} else if p.Sweep != nil {
		for d := 0; d < 2; d++ {
			for i := 0; i < p.Sweep.First; i++ {
				plans[d] = append(plans[d], &msgPlan{size: 10, sendAPI: sendSingle, recvAPI: recvComplete, body: fill(t, 10, byte(i))})
			}
		}
		m := &msgPlan{size: p.Sweep.Size, sendAPI: p.Sweep.SendAPI, recvAPI: t.Choose("recvapi", nRecvAPIs)}
		if m.sendAPI == sendTyped {
			v := t.Bytes("ts", p.Sweep.Size)
			for j := range v {
				if v[j] == 0 || v[j] == 0255 {
					v[j] = 'x'
				}
			}
			m.items = []item{{kind: 'i', ival: 7}, {kind: 's', n: len(v), val: v}, {kind: 'b', n: len(v), val: v}}
		} else {
			m.body = fill(t, m.size, 0x42)
			switch m.sendAPI {
			case sendWrite:
				m.cuts = []int{m.size}
			case sendPartial:
				m.cuts = []int{m.size / 2, m.size - m.size/2}
			case sendTypedB:
				m.cuts = []int{m.size}
			}
		}
		plans[0] = append(plans[0], m)
		plans[0] = append(plans[0], &msgPlan{size: 3, sendAPI: sendSingle, recvAPI: recvComplete, body: []byte("end")})
	} else {
		big := t.Chance("allowbig", 1, 6)
		plans[0] = planDirection(t, 0x10, big)
		plans[1] = planDirection(t, 0x80, big && t.Chance("big2", 1, 2))
		if big {
			s.Probe("run-with-big-message")
		}
	}
	hasBig := false
	for d := 0; d < 2; d++ {
		for _, m := range plans[d] {
			if m.size > 100000 {
				hasBig = true
			}
		}
	}
	if hasBig {
		if cfg.Window > 0 && cfg.Window < 4096 {
			cfg.Window = 65536
		}
	}
	net := simnet.New(s, cfg)
	a, b := net.Pipe("A", "B", "10.0.0.1:1000", "10.0.0.2:9618")
	sa, sb := stream.NewStream(a), stream.NewStream(b)
	if p.Enc && p.Comp == nil && p.Sweep == nil && t.Chance("prologue", 1, 3) {
		// a cleartext phase before the key, as a handshake is: what it carried (empty messages and
		// empty final frames included) is part of what the first protected frames authenticate
		var bodies [2][][]byte
		for d := 0; d < 2; d++ {
			for i, n := 0, t.Choose("prologue.n", 4); i < n; i++ {
				switch t.Choose("prologue.kind", 3) {
				case 0:
					bodies[d] = append(bodies[d], []byte{})
				case 1:
					bodies[d] = append(bodies[d], fill(t, 1+t.Choose("prologue.len", 200), byte(0x30+i)))
				case 2:
					bodies[d] = append(bodies[d], fill(t, 4096, byte(0x60+i))) // WriteMessage flushes at 4 KiB: the final frame is empty
				}
			}
		}
		pst := [2][2]*stream.Stream{{sa, sb}, {sb, sa}}
		var bad [2]string
		for d := 0; d < 2; d++ {
			d := d
			s.Go(fmt.Sprintf("prologue-send%d", d), func() {
				for _, b := range bodies[d] {
					var err error
					if len(b) == 4096 {
						pst[d][0].StartMessage()
						if err = pst[d][0].WriteMessage(ctx, b); err == nil {
							err = pst[d][0].EndMessage(ctx)
						}
					} else {
						err = pst[d][0].SendMessage(ctx, b)
					}
					if err != nil {
						bad[d] = fmt.Sprintf("send: %v", err)
						return
					}
				}
			})
			s.Go(fmt.Sprintf("prologue-recv%d", d), func() {
				for i, b := range bodies[d] {
					got, err := pst[d][1].ReceiveCompleteMessage(ctx)
					if err != nil {
						if !errors.Is(err, simnet.ErrSimEnded) {
							bad[d] = fmt.Sprintf("receive %d: %v", i, err)
						}
						return
					}
					if !bytes.Equal(got, b) {
						bad[d] = fmt.Sprintf("message %d differs (%d bytes sent, %d received)", i, len(b), len(got))
						return
					}
				}
			})
		}
		s.Run()
		for d := 0; d < 2; d++ {
			if bad[d] != "" {
				s.Violate("message-differs", "cleartext-prologue", fmt.Sprintf("cleartext phase before the key, direction %d: %s", d, bad[d]))
				return
			}
		}
		if s.Overrun || s.Quiescent {
			s.Probe("prologue-inconclusive")
			return
		}
		s.Probe("cleartext-prologue-before-key")
	}
	if p.Enc {
		key := t.Bytes("key", 32)
		if err := sa.SetSymmetricKey(key); err != nil {
			panic(err)
		}
		if err := sb.SetSymmetricKey(key); err != nil {
			panic(err)
		}
	}
	streams := [2][2]*stream.Stream{{sa, sb}, {sb, sa}} // [dir]{sender, receiver}
	eps := [2]*simnet.Endpoint{a, b}
	var ds [2]*dirState
	for d := 0; d < 2; d++ {
		d := d
		st := &dirState{plan: plans[d]}
		ds[d] = st
		s.Go(fmt.Sprintf("send%d", d), func() {
			for _, m := range st.plan {
				send(ctx, streams[d][0], eps[d], m)
				if !m.accepted {
					return
				}
			}
		})
		s.Go(fmt.Sprintf("recv%d", d), func() {
			for i, m := range st.plan {
				st.recvAt = i
				if m.sendAPI == sendTyped {
					bad, err := recvTyped(ctx, streams[d][1], m)
					if err != nil {
						if !errors.Is(err, simnet.ErrSimEnded) {
							st.recvErr = err
						}
						return
					}
					if bad != "" {
						st.typedBad = bad
						return
					}
					st.gotTyped++
					st.got = append(st.got, nil)
					continue
				}
				got, err := recvBytes(ctx, t, streams[d][1], m)
				if err != nil {
					if !errors.Is(err, simnet.ErrSimEnded) {
						st.recvErr = err
					}
					return
				}
				st.got = append(st.got, got)
			}
			st.recvDone = true
		})
	}
	s.Run()

	mode := "plain"
	if p.Enc {
		mode = "enc"
	}
	for d := 0; d < 2; d++ {
		st := ds[d]
		// model: accepted prefix
		nacc := 0
		var refused *msgPlan
		for _, m := range st.plan {
			if m.accepted {
				nacc++
			} else {
				if m.attempted {
					refused = m
				}
				break
			}
		}
		for _, tk := range s.Tasks() {
			if tk.Panic != nil {
				s.Violate("panic", fmt.Sprintf("%s/%v", mode, firstLine(tk.Stack)), fmt.Sprintf("task %s panicked: %v\n%s", tk.Name, tk.Panic, tk.Stack))
			}
		}
		if refused != nil && !refused.inflight {
			s.Probe("sender-refused")
			if refused.sendAPI >= sendTypedB {
				// the typed layer must accept values of any length, splitting them itself
				s.Violate("typed-layer-refused", fmt.Sprintf("%s/%s/%s", mode, sendNames[refused.sendAPI], sizeClass(refused.size)),
					fmt.Sprintf("dir %d: typed-layer send of %d bytes refused: %v", d, refused.size, refused.sendErr))
			}
		}
		// a receive error (other than the run being torn down) is only legitimate if the sender never accepted what it hit
		if st.recvErr != nil {
			m := st.plan[st.recvAt]
			what := fmt.Sprintf("dir %d msg %d (size %d, send API %s, recv API %d)", d, st.recvAt, m.size, sendNames[m.sendAPI], m.recvAPI)
			switch {
			case st.recvAt < nacc:
				s.Violate("receiver-rejected-accepted-message", fmt.Sprintf("%s/%s/%s", mode, sendNames[m.sendAPI], sizeClass(m.size)),
					what+": sender accepted, receiver error: "+st.recvErr.Error())
			case m.attempted && (m.midAbort || m.inflight):
				s.Violate("receiver-rejected-accepted-frame", fmt.Sprintf("%s/%s/%s", mode, sendNames[m.sendAPI], sizeClass(m.size)),
					fmt.Sprintf("%s: every frame on the wire was accepted by the sender (send ended with: %v) but the receiver failed: %v", what, m.sendErr, st.recvErr))
			default:
				s.Violate("receiver-error-without-cause", mode, fmt.Sprintf("%s: receiver error %v although nothing of the message was sent (send: %v)", what, st.recvErr, m.sendErr))
			}
		}
		if st.typedBad != "" {
			m := st.plan[st.recvAt]
			s.Violate("typed-value-mismatch", fmt.Sprintf("%s/%s", mode, sizeClass(m.size)), fmt.Sprintf("dir %d msg %d: %s", d, st.recvAt, st.typedBad))
		}
		if len(st.got) > nacc {
			s.Violate("extra-message", mode, fmt.Sprintf("dir %d: receiver returned %d messages, sender accepted %d", d, len(st.got), nacc))
		}
		for i := 0; i < len(st.got) && i < nacc; i++ {
			m := st.plan[i]
			if m.sendAPI == sendTyped {
				continue
			}
			if !bytes.Equal(st.got[i], m.body) {
				s.Violate("message-differs", fmt.Sprintf("%s/%s/recv%d/%s", mode, sendNames[m.sendAPI], m.recvAPI, sizeClass(m.size)),
					fmt.Sprintf("dir %d msg %d: got %d bytes, sent %d bytes (first diff at %d)", d, i, len(st.got[i]), len(m.body), firstDiff(st.got[i], m.body)))
			}
		}
		if st.recvErr == nil && st.typedBad == "" && len(st.got) < nacc {
			// receiver still blocked although everything accepted was sent completely
			s.Violate("message-not-delivered", fmt.Sprintf("%s/%s", mode, sizeClass(st.plan[len(st.got)].size)),
				fmt.Sprintf("dir %d: receiver got %d of %d accepted messages and is blocked at %v", d, len(st.got), nacc, s.BlockedAt))
		}
		if nacc == len(st.plan) && st.recvDone {
			s.Probe("direction-complete")
		}
	}
	a.CloseQuiet()
	b.CloseQuiet()
}

func firstLine(s string) string {
	for i := 0; i < len(s); i++ {
		if s[i] == '\n' {
			return s[:i]
		}
	}
	return s
}

func firstDiff(a, b []byte) int {
	n := len(a)
	if len(b) < n {
		n = len(b)
	}
	for i := 0; i < n; i++ {
		if a[i] != b[i] {
			return i
		}
	}
	return n
}

// runRefuse: a refused send must leave the stream usable - everything the sender accepts
// afterwards still arrives, byte-exact.
func runRefuse(s *kernel.Sim, p params) {
	t := s.T
	ctx := context.Background()
	net := simnet.New(s, simnet.Config{Window: 1 << 16, ShortReads: t.Choose("short", 2) == 1})
	a, b := net.Pipe("A", "B", "10.0.0.1:1000", "10.0.0.2:9618")
	sa, sb := stream.NewStream(a), stream.NewStream(b)
	if p.Enc {
		key := t.Bytes("key", 32)
		_ = sa.SetSymmetricKey(key)
		_ = sb.SetSymmetricKey(key)
	}
	r := p.Refuse
	var accepted [][]byte
	var refusedErr error
	big := fill(t, r.Size, 0x77)
	done := false
	var got [][]byte
	var recvErr error
	s.Go("send", func() {
		defer func() { done = true }()
		sendOK := func(tag byte) bool {
			m := fill(t, 20+int(tag), tag)
			if err := sa.SendMessage(ctx, m); err != nil {
				recvErr = fmt.Errorf("ordinary send refused: %w", err)
				return false
			}
			accepted = append(accepted, m)
			return true
		}
		for i := 0; i < r.Before; i++ {
			if !sendOK(byte(1 + i)) {
				return
			}
		}
		before := a.BytesOut()
		var err error
		switch r.API {
		case sendSingle:
			err = sa.SendMessage(ctx, big)
		case sendPartial:
			err = sa.SendPartialMessage(ctx, big)
		default:
			sa.StartMessage()
			err = sa.WriteMessage(ctx, big)
		}
		if err == nil {
			// accepted after all (e.g. the write API split it): then it has to arrive like any other
			if r.API == sendSingle {
				accepted = append(accepted, big)
			} else {
				s.Probe("oversize-send-accepted-by-multi-frame-api")
				return
			}
		} else {
			refusedErr = err
			if a.BytesOut() != before {
				s.Probe("refused-send-left-bytes-on-the-wire")
				return // a torn frame: the stream is legitimately dead
			}
			if r.API != sendSingle {
				return // an opened multi-write message cannot be continued after a refusal
			}
		}
		for i := 0; i < 3; i++ {
			if !sendOK(byte(40 + i)) {
				return
			}
		}
	})
	s.Go("recv", func() {
		for {
			m, err := sb.ReceiveCompleteMessage(ctx)
			if err != nil {
				if !errors.Is(err, simnet.ErrSimEnded) && !(done && len(got) == len(accepted)) {
					recvErr = err
				}
				return
			}
			got = append(got, m)
			if done && len(got) >= len(accepted) {
				return
			}
		}
	})
	s.Run()
	mode := "plain"
	if p.Enc {
		mode = "enc"
	}
	for _, tk := range s.Tasks() {
		if tk.Panic != nil {
			s.Violate("panic", mode+"/refuse", fmt.Sprintf("task %s: %v\n%s", tk.Name, tk.Panic, tk.Stack))
			return
		}
	}
	sig := fmt.Sprintf("%s/%s/after-refused-send/%s", mode, sendNames[r.API], sizeClass(r.Size))
	desc := fmt.Sprintf("%d ordinary messages, then a %d-byte send (refused: %v), then more ordinary messages", r.Before, r.Size, refusedErr)
	if recvErr != nil {
		s.Violate("receiver-rejected-accepted-message", sig, fmt.Sprintf("%s: the receiver failed on a message the sender had accepted: %v (received %d of %d)", desc, recvErr, len(got), len(accepted)))
		return
	}
	if len(got) != len(accepted) {
		s.Violate("message-lost", sig, fmt.Sprintf("%s: sender accepted %d messages, receiver got %d", desc, len(accepted), len(got)))
		return
	}
	for i := range got {
		if !bytes.Equal(got[i], accepted[i]) {
			s.Violate("message-differs", sig, fmt.Sprintf("%s: message %d differs", desc, i))
			return
		}
	}
	if refusedErr != nil {
		s.Probe("stream-usable-after-refused-send")
	}
}

var scenarios = []*scen.Scenario{
	{
		Name:       "threshold-sweep",
		Enumerated: true,
		Gen: func(g *scen.Gen) {
			// every size in the band around the frame limit x both modes x every sender API,
			// as the first protected frame (IV present) and as a later one
			lo, hi := MiB-40, MiB+2
			step := 1
			if g.Quick() {
				step = 3
			}
			for _, enc := range []bool{true, false} {
				for api := 0; api < nSendAPIs; api++ {
					for _, first := range []int{0, 1} {
						if !enc && first == 1 {
							continue
						}
						for sz := lo; sz <= hi; sz += step {
							if !g.Emit(scen.Case{Seed: g.Seed*1000003 + uint64(sz), Params: scen.Params(params{Enc: enc, Sweep: &sweep{Size: sz, SendAPI: api, First: first}})}) {
								return
							}
						}
					}
				}
			}
		},
		Run: run,
	},
	{
		Name:       "refused-send",
		Enumerated: true,
		Gen: func(g *scen.Gen) {
			n := uint64(0)
			for _, enc := range []bool{true, false} {
				for _, api := range []int{sendSingle, sendPartial, sendWrite} {
					for before := 0; before < 3; before++ {
						for _, sz := range []int{MiB - 33, MiB - 31, MiB - 16, MiB - 15, MiB - 1, MiB, MiB + 1, 2*MiB + 3} {
							n++
							if !g.Emit(scen.Case{Seed: g.Seed*1000211 + n, Params: scen.Params(params{Enc: enc, Refuse: &refuse{Size: sz, Before: before, API: api}})}) {
								return
							}
						}
					}
				}
			}
		},
		Run: run,
	},
	{
		Name:       "compositions",
		Enumerated: true,
		Gen: func(g *scen.Gen) {
			// every composition of every short message (0..6 bytes), alone and with one empty
			// write at every position, x the three multi-write sender APIs x every receive API
			// x both modes, as the first message of the connection and after another one
			maxLen := 6
			if g.Quick() {
				maxLen = 5
			}
			n := uint64(0)
			for _, enc := range []bool{true, false} {
				for _, api := range []int{sendWrite, sendPartial, sendTypedB} {
					for rapi := 0; rapi < nRecvAPIs; rapi++ {
						for before := 0; before < 2; before++ {
							for l := 0; l <= maxLen; l++ {
								masks := 1
								if l > 1 {
									masks = 1 << uint(l-1)
								}
								for mask := 0; mask < masks; mask++ {
									pieces := 1
									for b := 0; b < l-1; b++ {
										if mask&(1<<uint(b)) != 0 {
											pieces++
										}
									}
									if l == 0 {
										pieces = 0
									}
									for empty := -1; empty <= pieces; empty++ {
										n++
										if !g.Emit(scen.Case{Seed: g.Seed*999983 + n, Params: scen.Params(params{Enc: enc, Comp: &comp{Len: l, Mask: mask, EmptyAt: empty, SendAPI: api, RecvAPI: rapi, Before: before}})}) {
											return
										}
									}
								}
							}
						}
					}
				}
			}
		},
		Run: run,
	},
	{
		Name: "exchange",
		Gen: func(g *scen.Gen) {
			for i := uint64(0); ; i++ {
				if !g.Emit(scen.Case{Seed: g.Seed*1_000_000_007 + i, Params: scen.Params(params{Enc: i%2 == 0})}) {
					return
				}
			}
		},
		Run: run,
	},
}

func TestScenario(t *testing.T) { scen.Main(t, "C01", scenarios) }
