// C04 — the cleartext handshake is bound into the secure channel. Two real
// endpoints through a modifying relay: every byte of every cleartext handshake
// frame in each direction is perturbed (and frames removed, inserted, split,
// merged) for four handshake shapes; if anything changed and encryption ends up
// on, nobody may accept a protected frame.
package c04

import (
	"bytes"
	"context"
	"encoding/json"
	"fmt"
	"testing"

	"cedarsim/hs"
	"cedarsim/kernel"
	"cedarsim/refcodec"
	"cedarsim/scen"
	"cedarsim/simnet"

	"github.com/bbockelm/cedar/security"
)

type fault struct {
	Kind string `json:"kind"` // "", xor, zero, remove, insert-empty-partial, insert-empty-complete (before), append-*, split, merge
	Dir  int    `json:"dir"`  // 0 client->server, 1 server->client
	I    int    `json:"i"`    // frame index within the direction (of the faulted connection)
	Off  int    `json:"off"`
	Val  int    `json:"val"`
}

type params struct {
	Shape string `json:"shape"` // noauth | claimtobe | token | resumed
	F     fault  `json:"f"`
}

// baseline measurements shared between Gen (via Probe) and Run
type baselineInfo struct {
	ClearLens [2][]int `json:"clear_lens"` // lengths of the cleartext handshake frames per direction
}

var lastBaseline baselineInfo

var canaryC = []byte("client-application-data-0123456789")
var canaryS = []byte("server-application-data-9876543210")

type relay struct {
	s      *kernel.Sim
	f      fault
	dir    int
	active bool
	held   []byte
	fired  *bool
}

func (r *relay) onFrame(idx int, raw []byte) ([][]byte, bool) {
	f := r.f
	if !r.active || f.Kind == "" || f.Dir != r.dir {
		return [][]byte{raw}, false
	}
	fire := func(kind string) { r.s.Fault(kind); *r.fired = true }
	switch f.Kind {
	case "xor", "zero":
		if idx == f.I && f.Off < len(raw) {
			out := append([]byte(nil), raw...)
			if f.Kind == "xor" {
				out[f.Off] ^= byte(f.Val)
			} else {
				if out[f.Off] == 0 {
					return [][]byte{raw}, false
				}
				out[f.Off] = 0
			}
			fire("byte-" + f.Kind)
			return [][]byte{out}, false
		}
	case "remove":
		if idx == f.I {
			fire("frame-removed")
			return nil, false
		}
	case "insert-empty-partial", "insert-empty-complete":
		if idx == f.I {
			end := byte(0)
			if f.Kind == "insert-empty-complete" {
				end = 1
			}
			fire("frame-inserted")
			return [][]byte{refcodec.MakeFrame(end, nil), raw}, false
		}
	case "append-empty-partial", "append-empty-complete":
		if idx == f.I {
			end := byte(0)
			if f.Kind == "append-empty-complete" {
				end = 1
			}
			fire("frame-inserted")
			return [][]byte{raw, refcodec.MakeFrame(end, nil)}, false
		}
	case "insert-junk-flag11", "insert-junk-flag255", "insert-junk-oversize", "insert-junk-negative":
		// a bare 5-byte header no receiver can accept (impossible end flag, or an impossible length with
		// nothing behind it) slipped in before the frame: whatever error it causes on the way must not
		// be swallowed in a way that lets the handshake complete over matching digests
		if idx == f.I {
			junk := map[string][]byte{
				"insert-junk-flag11":   {11, 0, 0, 0, 0},
				"insert-junk-flag255":  {255, 0, 0, 0, 0},
				"insert-junk-oversize": {1, 0x7f, 0xff, 0xff, 0xff},
				"insert-junk-negative": {0, 0xff, 0xff, 0xff, 0xff},
			}[f.Kind]
			fire("junk-header-inserted")
			return [][]byte{junk, raw}, false
		}
	case "split":
		if idx == f.I && len(raw) > 6 {
			pl := raw[5:]
			h := len(pl) / 2
			fire("frame-split")
			return [][]byte{refcodec.MakeFrame(0, pl[:h]), refcodec.MakeFrame(raw[0], pl[h:])}, false
		}
	case "merge":
		if idx == f.I && raw[0] == 0 {
			r.held = raw
			return nil, false
		}
		if idx == f.I+1 && r.held != nil {
			fire("frames-merged")
			m := refcodec.MakeFrame(raw[0], append(append([]byte(nil), r.held[5:]...), raw[5:]...))
			r.held = nil
			return [][]byte{m}, false
		}
	}
	return [][]byte{raw}, false
}

func run(s *kernel.Sim, c *scen.Case) {
	var p params
	c.P(&p)
	hs.Init()
	t := s.T
	ctx := context.Background()
	tw := hs.NewTokenWorld(t)
	var methods []security.AuthMethod
	alevel := security.SecurityRequired
	elevel := security.SecurityRequired
	switch p.Shape {
	case "claimtobe-optenc":
		// encryption merely OPTIONAL on both ends: the key agreement still runs, so the
		// session ends up encrypted and the binding must hold all the same
		methods = []security.AuthMethod{security.AuthClaimToBe}
		elevel = security.SecurityOptional
	case "noauth-optenc":
		alevel = security.SecurityNever
		elevel = security.SecurityOptional
	case "noauth":
		alevel = security.SecurityNever
	case "claimtobe", "resumed":
		methods = []security.AuthMethod{security.AuthClaimToBe}
	case "token":
		methods = []security.AuthMethod{security.AuthToken}
	case "ssl":
		// TLS tunnelled in CEDAR messages: every tunnelled record, status and the session
		// key message belong to the cleartext transcript that the channel must be bound to
		methods = []security.AuthMethod{security.AuthSSL}
	}
	var sw *hs.SSLWorld
	if p.Shape == "ssl" {
		var err error
		if sw, err = hs.NewSSLWorld(); err != nil {
			s.Violate("harness", "ssl-world", err.Error())
			return
		}
		defer sw.Close()
	}
	cache := security.NewSessionCache()
	mkc := func() *security.SecurityConfig {
		cfg := hs.Cfg(alevel, elevel, methods, hs.AES, 60021)
		cfg.SessionCache = cache
		cfg.TrustDomain = tw.Issuer
		cfg.Token = tw.Token(hs.Now()-10, hs.Now()+3600)
		if sw != nil {
			sw.Client(cfg)
		}
		return cfg
	}
	mks := func() *security.SecurityConfig {
		cfg := hs.Cfg(alevel, elevel, methods, hs.AES, security.NoCommand)
		tw.ServerToken(cfg)
		if sw != nil {
			sw.Server(cfg)
		}
		return cfg
	}
	net := simnet.New(s, simnet.DrawConfig(t))
	fired := false
	type result struct {
		cn, sn         *security.SecurityNegotiation
		cerr, serr     error
		sgot, cgot     []byte
		sxerr, cxerr   error
		cEnc, sEnc     bool
		cHsOut, sHsOut int64
		pr             *hs.Pair
	}
	connect := func(n int, active bool) *result {
		r := &result{}
		pr := hs.NewPair(net, n)
		r.pr = pr
		pr.CE.SetFilter(&simnet.FrameFilter{OnFrame: (&relay{s: s, f: p.F, dir: 0, active: active, fired: &fired}).onFrame})
		pr.SE.SetFilter(&simnet.FrameFilter{OnFrame: (&relay{s: s, f: p.F, dir: 1, active: active, fired: &fired}).onFrame})
		s.Go(fmt.Sprintf("client%d", n), func() {
			a := security.NewAuthenticator(mkc(), pr.CS)
			r.cn, r.cerr = a.ClientHandshake(ctx)
			r.cHsOut = pr.CE.BytesOut()
			r.cEnc = pr.CS.IsEncrypted()
			if r.cerr != nil {
				pr.CE.Close()
				return
			}
			if r.cxerr = pr.CS.SendMessage(ctx, canaryC); r.cxerr != nil {
				return
			}
			r.cgot, r.cxerr = pr.CS.ReceiveCompleteMessage(ctx)
			pr.CE.Close()
		})
		s.Go(fmt.Sprintf("server%d", n), func() {
			a := security.NewAuthenticator(mks(), pr.SS)
			r.sn, r.serr = a.ServerHandshake(ctx)
			r.sHsOut = pr.SE.BytesOut()
			r.sEnc = pr.SS.IsEncrypted()
			if r.serr != nil {
				pr.SE.Close()
				return
			}
			r.sgot, r.sxerr = pr.SS.ReceiveCompleteMessage(ctx)
			if r.sxerr != nil {
				pr.SE.Close()
				return
			}
			r.sxerr = pr.SS.SendMessage(ctx, canaryS)
			pr.SE.Close()
		})
		s.Run()
		pr.CE.CloseQuiet()
		pr.SE.CloseQuiet()
		return r
	}
	var r *result
	if p.Shape == "resumed" {
		first := connect(1, false)
		if first.cerr != nil || first.serr != nil || !bytes.Equal(first.sgot, canaryC) {
			s.Violate("baseline-failed", p.Shape, fmt.Sprintf("establishing the session failed: %v %v", first.cerr, first.serr))
			return
		}
		r = connect(2, true)
		if p.F.Kind == "" && (r.cn == nil || !r.cn.SessionResumed) {
			s.Violate("baseline-failed", p.Shape, fmt.Sprintf("second connection did not resume: %v", r.cerr))
			return
		}
	} else {
		r = connect(1, true)
	}
	for _, tk := range s.Tasks() {
		if tk.Panic != nil {
			s.Violate("panic", p.Shape+"/"+p.F.Kind, fmt.Sprintf("task %s: %v\n%s", tk.Name, tk.Panic, tk.Stack))
			return
		}
	}
	// baseline: record the cleartext frame layout for the generator
	if p.F.Kind == "" {
		var bi baselineInfo
		cf, _ := refcodec.ParseFrames(r.pr.CE.SentBytes()[:r.cHsOut])
		sf, _ := refcodec.ParseFrames(r.pr.SE.SentBytes()[:r.sHsOut])
		if p.Shape != "resumed" && len(sf) > 0 {
			sf = sf[:len(sf)-1] // the post-auth ad is the first protected frame
		}
		for _, f := range cf {
			bi.ClearLens[0] = append(bi.ClearLens[0], len(f.Raw))
		}
		for _, f := range sf {
			bi.ClearLens[1] = append(bi.ClearLens[1], len(f.Raw))
		}
		lastBaseline = bi
		b, _ := json.Marshal(bi)
		s.Note("baseline %s: %s", p.Shape, b)
		if r.cerr != nil || r.serr != nil || !bytes.Equal(r.sgot, canaryC) || !bytes.Equal(r.cgot, canaryS) || !r.cEnc || !r.sEnc {
			s.Violate("baseline-failed", p.Shape, fmt.Sprintf("fault-free run must succeed encrypted and exchange data: client %v/%v server %v/%v enc %v/%v", r.cerr, r.cxerr, r.serr, r.sxerr, r.cEnc, r.sEnc))
		}
		s.Probe("baseline-ok:" + p.Shape)
		return
	}
	if !fired {
		s.Probe("fault-did-not-fire")
		return
	}
	sig := fmt.Sprintf("%s/%s/dir%d/frame%d", p.Shape, p.F.Kind, p.F.Dir, p.F.I)
	desc := fmt.Sprintf("shape %s, %s on %s frame %d offset %d value %#x", p.Shape, p.F.Kind, []string{"client->server", "server->client"}[p.F.Dir], p.F.I, p.F.Off, p.F.Val)
	s.Note("%s: client hs err=%v enc=%v; server hs err=%v enc=%v; server app read err=%v got=%d bytes; client app got=%d bytes err=%v", desc, r.cerr, r.cEnc, r.serr, r.sEnc, r.sxerr, len(r.sgot), len(r.cgot), r.cxerr)
	// A full handshake ends, on the client, with the first protected frame (the
	// post-auth ad) being authenticated; a resumed one ends before any protected
	// frame, so there the first protected frames are the application messages.
	if p.Shape != "resumed" && r.cerr == nil && r.cEnc {
		s.Violate("client-accepted-protected-frame-after-tampering", sig, desc+": the client's handshake succeeded with encryption on although the cleartext transcript was modified in transit")
		return
	}
	if r.cerr == nil && r.cEnc && r.cxerr == nil && r.cgot != nil {
		s.Violate("client-accepted-application-data-after-tampering", sig, desc+": the client accepted application data over the tampered session")
		return
	}
	if r.serr == nil && r.sEnc && r.sxerr == nil && r.sgot != nil {
		s.Violate("server-accepted-application-data-after-tampering", sig, desc+": the server accepted application data over the tampered session")
		return
	}
	s.Probe("tampering-detected")
	if r.cerr == nil && !r.cEnc {
		s.Probe("negotiated-to-plaintext")
	}
}

var shapes = []string{"noauth", "claimtobe", "token", "resumed", "claimtobe-optenc", "noauth-optenc", "ssl"}

func gen(g *scen.Gen) {
	seed := g.Seed * 2038074743
	for _, sh := range shapes {
		seed++
		base := scen.Case{Seed: seed, Params: scen.Params(params{Shape: sh})}
		oc := g.Probe(base)
		if oc.Internal != "" || len(oc.Violations) > 0 {
			// let the driver run it so the failure is reported
			g.Emit(base)
			continue
		}
		bi := lastBaseline
		if !g.Emit(base) {
			return
		}
		step := 1
		if g.Quick() {
			step = 3
		}
		k := 0
		for dir := 0; dir < 2; dir++ {
			for i, ln := range bi.ClearLens[dir] {
				for off := 0; off < ln; off++ {
					for vi, v := range []struct {
						kind string
						val  int
					}{{"xor", 0x01}, {"xor", 0x80}, {"zero", 0}} {
						k++
						if step > 1 && vi != (off+i)%3 {
							continue // quick tier: one of the three substitute values per offset, rotating
						}
						seed++
						if !g.Emit(scen.Case{Seed: seed, Params: scen.Params(params{Shape: sh, F: fault{Kind: v.kind, Dir: dir, I: i, Off: off, Val: v.val}})}) {
							return
						}
					}
				}
				// the end flag (header byte 0) also takes the other values a receiver may treat alike: 1 -> 2, 1 -> 10, 0 -> 3
				for _, v := range []int{0x03, 0x0b, 0x06} {
					seed++
					if !g.Emit(scen.Case{Seed: seed, Params: scen.Params(params{Shape: sh, F: fault{Kind: "xor", Dir: dir, I: i, Off: 0, Val: v}})}) {
						return
					}
				}
				for _, kind := range []string{"remove", "insert-empty-partial", "insert-empty-complete", "append-empty-partial", "append-empty-complete", "split", "merge",
					"insert-junk-flag11", "insert-junk-flag255", "insert-junk-oversize", "insert-junk-negative"} {
					if (kind == "append-empty-partial" || kind == "append-empty-complete") && i == len(bi.ClearLens[dir])-1 {
						// after the last cleartext frame of a direction = before its first protected
						// frame: the receiver meets it in the protected phase, which is C02's subject
						continue
					}
					seed++
					if !g.Emit(scen.Case{Seed: seed, Params: scen.Params(params{Shape: sh, F: fault{Kind: kind, Dir: dir, I: i}})}) {
						return
					}
				}
			}
		}
	}
}

var scenarios = []*scen.Scenario{{Name: "tamper-cleartext", Enumerated: true, Gen: gen, Run: run}}

func TestScenario(t *testing.T) { scen.Main(t, "C04", scenarios) }
