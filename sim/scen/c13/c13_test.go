// C13 — decoding is total and bounded. Every wire-facing decoder runs as a task
// reading from a simulated connection fed by a peer that corrupts, truncates and
// bloats valid traffic (plaintext, and encrypted by a peer that holds the key):
// no panic, returns after the peer's EOF, allocation linear in the bytes
// delivered, capped readers stop consuming.
package c13

import (
	"bytes"
	"context"
	"encoding/binary"
	"fmt"
	"net"
	"runtime/debug"
	"runtime/metrics"
	"strings"
	"testing"
	"time"

	"cedarsim/hs"
	"cedarsim/kernel"
	"cedarsim/refcodec"
	"cedarsim/scen"
	"cedarsim/simnet"

	"github.com/PelicanPlatform/classad/classad"
	"github.com/bbockelm/cedar/addresses"
	"github.com/bbockelm/cedar/ccb"
	"github.com/bbockelm/cedar/message"
	"github.com/bbockelm/cedar/security"
	"github.com/bbockelm/cedar/stream"
	"github.com/bbockelm/cedar/version"
)

type params struct {
	Entry string `json:"entry"`
	Enc   bool   `json:"enc,omitempty"`
	Mut   string `json:"mut"`
	Off   int    `json:"off,omitempty"`
	Val   int64  `json:"val,omitempty"`
	Frame int    `json:"frame,omitempty"`
}

var extremes = []int64{-1, 0, 1, 1<<31 - 1, 1 << 31, 1 << 40, 1 << 62, -1 << 63, 65536, 1<<20 + 1}

// sink is an in-memory net.Conn used to render valid traffic into bytes.
type sink struct{ bytes.Buffer }

func (s *sink) Read(p []byte) (int, error)         { return 0, fmt.Errorf("sink") }
func (s *sink) Close() error                       { return nil }
func (s *sink) LocalAddr() net.Addr                { return simnet.Addr("10.0.0.1:1") }
func (s *sink) RemoteAddr() net.Addr               { return simnet.Addr("10.0.0.2:2") }
func (s *sink) SetDeadline(t time.Time) error      { return nil }
func (s *sink) SetReadDeadline(t time.Time) error  { return nil }
func (s *sink) SetWriteDeadline(t time.Time) error { return nil }

func sampleAd() *classad.ClassAd {
	ad := classad.New()
	_ = ad.Set("Name", "slot1@host.example")
	_ = ad.Set("Cpus", 8)
	_ = ad.Set("Load", 0.25)
	_ = ad.Set("Note", "a \"quoted\" string with \\ backslash")
	_ = ad.Set("Flag", true)
	_ = ad.Set("MyType", "Machine")
	_ = ad.Set("TargetType", "Job")
	return ad
}

type entry struct {
	name string
	// build writes one valid message through the typed layer
	build func(ctx context.Context, m *message.Message, enc bool) error
	// decode runs the decoder under test on a fresh message of st
	decode func(ctx context.Context, st *stream.Stream) error
	cap    int // capped readers: the cap in bytes
}

var entries = []entry{
	{name: "typed", build: func(ctx context.Context, m *message.Message, enc bool) error {
		_ = m.PutInt(ctx, 42)
		_ = m.PutString(ctx, "hello world")
		_ = m.PutChar(ctx, 'x')
		_ = m.PutDouble(ctx, 3.5)
		_ = m.PutString(ctx, "")
		return m.PutInt64(ctx, -7)
	}, decode: func(ctx context.Context, st *stream.Stream) error {
		m := message.NewMessageFromStream(st)
		if _, err := m.GetInt(ctx); err != nil {
			return err
		}
		if _, err := m.GetString(ctx); err != nil {
			return err
		}
		if _, err := m.GetChar(ctx); err != nil {
			return err
		}
		if _, err := m.GetDouble(ctx); err != nil {
			return err
		}
		if _, err := m.GetString(ctx); err != nil {
			return err
		}
		_, err := m.GetInt64(ctx)
		return err
	}},
	// a length announced by the peer, then that many raw bytes: how the TOKEN handshake reads its
	// nonces and MACs and the KERBEROS exchange its tickets (those reads sit behind echoes of fresh
	// random values that a recorded transcript cannot supply, so the pattern also runs on its own)
	{name: "length-prefixed-bytes", build: func(ctx context.Context, m *message.Message, enc bool) error {
		_ = m.PutInt(ctx, 24)
		_ = m.PutBytes(ctx, []byte("twenty-four raw bytes..."))
		return m.PutInt(ctx, 9)
	}, decode: func(ctx context.Context, st *stream.Stream) error {
		m := message.NewMessageFromStream(st)
		n, err := m.GetInt(ctx)
		if err != nil {
			return err
		}
		if _, err := m.GetBytes(ctx, n); err != nil {
			return err
		}
		_, err = m.GetInt(ctx)
		return err
	}},
	{name: "string-capped", cap: 64, build: func(ctx context.Context, m *message.Message, enc bool) error {
		_ = m.PutString(ctx, "short")
		return m.PutString(ctx, "second")
	}, decode: func(ctx context.Context, st *stream.Stream) error {
		m := message.NewMessageFromStream(st)
		if _, err := m.GetStringWithMaxSize(ctx, 64); err != nil {
			return err
		}
		_, err := m.GetStringWithMaxSize(ctx, 64)
		return err
	}},
	{name: "skip-string", build: func(ctx context.Context, m *message.Message, enc bool) error {
		_ = m.PutString(ctx, "to be skipped")
		return m.PutInt(ctx, 5)
	}, decode: func(ctx context.Context, st *stream.Stream) error {
		m := message.NewMessageFromStream(st)
		if err := m.SkipString(ctx); err != nil {
			return err
		}
		_, err := m.GetInt(ctx)
		return err
	}},
	{name: "classad", build: func(ctx context.Context, m *message.Message, enc bool) error { return m.PutClassAd(ctx, sampleAd()) },
		decode: func(ctx context.Context, st *stream.Stream) error {
			_, err := message.NewMessageFromStream(st).GetClassAd(ctx)
			return err
		}},
	{name: "classad-capped", cap: 4096, build: func(ctx context.Context, m *message.Message, enc bool) error { return m.PutClassAd(ctx, sampleAd()) },
		decode: func(ctx context.Context, st *stream.Stream) error {
			_, err := message.NewMessageFromStream(st).GetClassAdWithMaxSize(ctx, 4096)
			return err
		}},
	{name: "classad-raw", build: func(ctx context.Context, m *message.Message, enc bool) error { return m.PutClassAd(ctx, sampleAd()) },
		decode: func(ctx context.Context, st *stream.Stream) error {
			_, err := message.NewMessageFromStream(st).GetClassAdRaw(ctx)
			return err
		}},
	{name: "classad-skip", build: func(ctx context.Context, m *message.Message, enc bool) error { return m.PutClassAd(ctx, sampleAd()) },
		decode: func(ctx context.Context, st *stream.Stream) error {
			return message.NewMessageFromStream(st).SkipClassAdRaw(ctx)
		}},
	{name: "ccb-control-ad", cap: 65536, build: func(ctx context.Context, m *message.Message, enc bool) error { return m.PutClassAd(ctx, sampleAd()) },
		decode: func(ctx context.Context, st *stream.Stream) error {
			_, err := ccb.ReadControlAd(ctx, st)
			return err
		}},
	{name: "ccb-reverse-connect", cap: 65536, build: func(ctx context.Context, m *message.Message, enc bool) error {
		_ = m.PutInt(ctx, ccb.CommandReverseConnect)
		return m.PutClassAd(ctx, sampleAd())
	}, decode: func(ctx context.Context, st *stream.Stream) error {
		m := message.NewMessageFromStream(st)
		cmd, err := m.GetInt(ctx)
		if err != nil {
			return err
		}
		_, err = ccb.ReadReverseConnectAd(ctx, m, cmd)
		return err
	}},
	{name: "stream-complete", build: func(ctx context.Context, m *message.Message, enc bool) error {
		_ = m.PutBytes(ctx, bytes.Repeat([]byte("abc"), 20))
		_ = m.FlushFrame(ctx, false)
		return m.PutBytes(ctx, []byte("tail"))
	}, decode: func(ctx context.Context, st *stream.Stream) error {
		_, err := st.ReceiveCompleteMessage(ctx)
		return err
	}},
	{name: "stream-startread", build: func(ctx context.Context, m *message.Message, enc bool) error {
		_ = m.PutBytes(ctx, bytes.Repeat([]byte("abc"), 20))
		_ = m.FlushFrame(ctx, false)
		return m.PutBytes(ctx, []byte("tail"))
	}, decode: func(ctx context.Context, st *stream.Stream) error {
		if err := st.StartMessageRead(ctx); err != nil {
			return err
		}
		buf := make([]byte, 16)
		for i := 0; i < 8; i++ {
			n, err := st.ReadMessageBytes(ctx, buf)
			if err != nil || n == 0 {
				return err
			}
		}
		return nil
	}},
}

var entryByName = func() map[string]*entry {
	m := map[string]*entry{}
	for i := range entries {
		m[entries[i].name] = &entries[i]
	}
	return m
}()

// render produces the plaintext payload of one valid message of entry e.
func renderPlain(e *entry, enc bool) []byte {
	sk := &sink{}
	st := stream.NewStream(sk)
	if enc {
		// the typed layer adds length prefixes on encrypted streams: render it that way
		st.SetSymmetricKey(bytes.Repeat([]byte{7}, 32))
		st.SetEncrypted(true)
	}
	// capture the typed payload before framing by using a recording stream interface
	rec := &recStream{enc: enc}
	m := message.NewMessageForStream(rec)
	if err := e.build(context.Background(), m, enc); err != nil {
		panic(err)
	}
	if err := m.FinishMessage(context.Background()); err != nil {
		panic(err)
	}
	_ = st
	return rec.all
}

// recStream records the typed layer's output (frames concatenated).
type recStream struct {
	enc bool
	all []byte
}

func (r *recStream) ReadFrame(ctx context.Context) ([]byte, bool, error) {
	return nil, true, fmt.Errorf("recStream")
}
func (r *recStream) WriteFrame(ctx context.Context, data []byte, isEOM bool) error {
	r.all = append(r.all, data...)
	return nil
}
func (r *recStream) IsEncrypted() bool { return r.enc }

func mutate(t *kernel.Tape, p params, payload []byte, capBytes int) (out []byte, note string) {
	out = append([]byte(nil), payload...)
	switch p.Mut {
	case "none":
	case "int8":
		if p.Off+8 > len(out) {
			return nil, "skip"
		}
		binary.BigEndian.PutUint64(out[p.Off:], uint64(p.Val))
	case "flip":
		if p.Off >= len(out) {
			return nil, "skip"
		}
		out[p.Off] ^= byte(p.Val)
	case "cut":
		if p.Off > len(out) {
			return nil, "skip"
		}
		out = out[:p.Off]
	case "del-nul":
		k := 0
		for i, b := range out {
			if b == 0 {
				if k == p.Off {
					out = append(out[:i], out[i+1:]...)
					return out, ""
				}
				k++
			}
		}
		return nil, "skip"
	case "zkm":
		// replace the p.Off-th NUL-terminated run by the in-band secret marker
		k, start := 0, 0
		for i, b := range out {
			if b == 0 {
				if k == p.Off && i-start >= 3 {
					rep := append([]byte("ZKM"), 0)
					out = append(append(append([]byte(nil), out[:start]...), rep...), out[i+1:]...)
					return out, ""
				}
				k++
				start = i + 1
			}
		}
		return nil, "skip"
	case "lenbloat":
		// encrypted streams length-prefix their strings: declare a string far larger than the
		// cap at offset Off AND deliver it, so that a capped reader that waits for the
		// declared length (instead of the cap) is seen consuming it
		if p.Off+4 > len(out) {
			return nil, "skip"
		}
		n := 3<<20 + capBytes
		big := bytes.Repeat([]byte{'A'}, n)
		big[n-1] = 0
		var l [4]byte
		binary.BigEndian.PutUint32(l[:], uint32(n))
		old := int(binary.BigEndian.Uint32(out[p.Off : p.Off+4]))
		rest := p.Off + 4 + old
		if old < 0 || rest > len(out) {
			rest = p.Off + 4
		}
		out = append(append(append(append([]byte(nil), out[:p.Off]...), l[:]...), big...), out[rest:]...)
		return out, ""
	case "zkm-bloat":
		// the in-band secret marker in place of the p.Off-th run, followed by a "secret"
		// many times the cap: the capped readers must bound what follows the marker too
		base := 8 // the expression strings follow the 8-byte expression count
		if p.Entry == "ccb-reverse-connect" {
			base = 16 // ... which follows the command integer
		}
		k, start := 0, base
		for i, b := range out {
			if i < base {
				continue
			}
			if b == 0 {
				if k == p.Off && i-start >= 3 {
					rep := append([]byte("ZKM"), 0)
					rep = append(rep, bytes.Repeat([]byte{'A'}, capBytes*int(p.Val))...)
					rep = append(rep, 0)
					out = append(append(append([]byte(nil), out[:start]...), rep...), out[i+1:]...)
					return out, ""
				}
				k++
				start = i + 1
			}
		}
		return nil, "skip"
	case "wide-ad", "zkm-wide-ad":
		// an ad many times the cap in total although every single expression is far below it
		// (only meaningful where the payload starts with, or after 8 bytes contains, an ad);
		// zkm-wide-ad: every expression additionally travels behind the in-band secret marker
		per := capBytes / 8
		if per < 16 {
			per = 16
		}
		n := int(p.Val) * capBytes / per
		var b []byte
		if p.Off > 0 {
			b = append(b, out[:p.Off]...)
		}
		var cnt [8]byte
		binary.BigEndian.PutUint64(cnt[:], uint64(n))
		b = append(b, cnt[:]...)
		for i := 0; i < n; i++ {
			e := fmt.Sprintf("A%06d = \"%s\"", i, strings.Repeat("v", per-16))
			if p.Mut == "zkm-wide-ad" {
				b = append(b, 'Z', 'K', 'M', 0)
			}
			b = append(append(b, e...), 0)
		}
		b = append(b, "Machine\x00Job\x00"...)
		return b, ""
	case "bloat":
		// a value many times the cap, with no terminator, at offset Off
		if p.Off > len(out) {
			return nil, "skip"
		}
		n := capBytes * int(p.Val)
		if n == 0 {
			n = 1 << 20
		}
		big := bytes.Repeat([]byte{'A'}, n)
		out = append(append(append([]byte(nil), out[:p.Off]...), big...), out[p.Off:]...)
	}
	return out, ""
}

func allocBytes() uint64 {
	s := []metrics.Sample{{Name: "/gc/heap/allocs:bytes"}}
	metrics.Read(s)
	return s[0].Value.Uint64()
}

// stackBytes is the memory currently held by goroutine stacks (it can shrink).
func stackBytes() int64 {
	s := []metrics.Sample{{Name: "/memory/classes/heap/stacks:bytes"}}
	metrics.Read(s)
	return int64(s[0].Value.Uint64())
}

func sigOf(p params) string {
	m := p.Mut
	if p.Mut == "int8" {
		switch {
		case p.Val < 0:
			m = "int8/negative"
		case p.Val > 1<<31:
			m = "int8/huge"
		default:
			m = "int8/small"
		}
	}
	enc := "plain"
	if p.Enc {
		enc = "enc"
	}
	return fmt.Sprintf("%s/%s/%s", p.Entry, enc, m)
}

func run(s *kernel.Sim, c *scen.Case) {
	var p params
	c.P(&p)
	hs.Init()
	switch {
	case p.Entry == "text-parsers":
		runText(s, p)
		return
	case p.Entry == "crypto-blob":
		runBlob(s, p)
		return
	case strings.HasPrefix(p.Entry, "handshake-"):
		runHandshake(s, p)
		return
	case p.Entry == "frames":
		runFrames(s, p)
		return
	}
	e := entryByName[p.Entry]
	t := s.T
	ctx := context.Background()
	payload := renderPlain(e, p.Enc)
	mut, note := mutate(t, p, payload, e.cap)
	if note == "skip" {
		s.Probe("mutation-out-of-range")
		return
	}
	// frame it the way a peer holding the key would
	sk := &sink{}
	sst := stream.NewStream(sk)
	key := t.Bytes("key", 32)
	if p.Enc {
		sst.SetSymmetricKey(key)
	}
	// (in frames of at most 200 KB written directly: the typed layer would cut a large
	// payload into maximum-size frames, which an encrypting stream refuses to send)
	for off := 0; ; off += 200000 {
		end := off + 200000
		last := end >= len(mut)
		if last {
			end = len(mut)
		}
		if err := sst.WriteFrame(ctx, mut[off:end], last); err != nil {
			s.Violate("harness", "framing", err.Error())
			return
		}
		if last {
			break
		}
	}
	wire := sk.Bytes()
	feed(s, p, wire, e.cap, func(st *stream.Stream) error {
		if p.Enc {
			st.SetSymmetricKey(key)
		}
		return e.decode(ctx, st)
	})
}

// rawFramer passes typed-layer frames to a real stream but reports "not encrypted" to the
// typed layer so that PutBytes is a plain byte copy (the payload already has its final form).
type rawFramer struct{ st *stream.Stream }

func (r *rawFramer) ReadFrame(ctx context.Context) ([]byte, bool, error) { return r.st.ReadFrame(ctx) }
func (r *rawFramer) WriteFrame(ctx context.Context, data []byte, isEOM bool) error {
	return r.st.WriteFrame(ctx, data, isEOM)
}
func (r *rawFramer) IsEncrypted() bool { return false }

// feed delivers wire to a decoder task, closes, and applies the oracle.
func feed(s *kernel.Sim, p params, wire []byte, capBytes int, dec func(st *stream.Stream) error) {
	net0 := simnet.New(s, simnet.Config{ShortReads: s.T.Choose("short", 2) == 1})
	peer, ep := net0.Pipe("peer", "dec", "10.0.0.1:1000", "10.0.0.2:9618")
	st := stream.NewStream(ep)
	var derr error
	var before, after uint64
	var stBefore, stPeak int64
	var stepsBefore, stepsAfter uint64
	returned := false
	tk := s.Go("decoder", func() {
		before, stBefore, stepsBefore = allocBytes(), stackBytes(), s.Step
		// the deepest point of a recursive reader is reached just before it unwinds:
		// sample the stack footprint from a deferred call of the innermost return path
		defer func() {
			if v := stackBytes(); v > stPeak {
				stPeak = v
			}
		}()
		derr = dec(st)
		after, stepsAfter = allocBytes(), s.Step
		returned = true
	})
	s.Go("peer", func() {
		peer.Write(wire)
		if strings.HasPrefix(p.Entry, "handshake-") {
			// a handshake endpoint answers while it reads: the peer sends everything it has,
			// keeps listening (drain) and hangs up a little later, so that the endpoint's own
			// writes do not fail before it has decoded the whole recording
			s.Sleep("peer-linger", 5*time.Second)
		}
		peer.Close()
	})
	s.Go("drain", func() { // whatever the decoder writes back is read and dropped
		buf := make([]byte, 4096)
		for {
			if _, err := peer.Read(buf); err != nil {
				return
			}
		}
	})
	s.Run()
	ep.CloseQuiet()
	peer.CloseQuiet()
	sig := sigOf(p)
	desc := fmt.Sprintf("entry %s (encrypted=%v), mutation %s off=%d val=%d frame=%d, %d bytes delivered", p.Entry, p.Enc, p.Mut, p.Off, p.Val, p.Frame, len(wire))
	if tk.Panic != nil {
		s.Violate("panic", sig, fmt.Sprintf("%s: %v\n%s", desc, tk.Panic, firstFrames(tk.Stack)))
		return
	}
	if !returned {
		s.Violate("did-not-return-after-eof", sig, fmt.Sprintf("%s: the peer closed but the decoder is still blocked at %v", desc, s.BlockedAt))
		return
	}
	grown := after - before
	steps := stepsAfter - stepsBefore
	// Proportionality bound on heap allocation: a constant that covers two maximum-size
	// frame buffers (a receiver may size one buffer from a frame header it has validated
	// against the 1 MiB frame limit, and copy it once), 64 bytes per byte delivered, and
	// 2 KiB per scheduling step, which is what the simulator itself allocates per I/O
	// primitive (the counter is process-wide).
	limit := uint64(2<<20+256<<10+64*len(wire)) + 2048*steps
	if grown > limit {
		s.Violate("allocation-out-of-proportion", sig, fmt.Sprintf("%s: %d bytes allocated while decoding (limit %d = 2.25 MiB + 64 x input + 2 KiB x %d simulator steps)", desc, grown, limit, steps))
		return
	}
	// Stack growth (unbounded recursion on peer-controlled structure): the simulator's own
	// goroutines have small fixed stacks, so this is attributable to the decoder.
	if sg := stPeak - stBefore; sg > int64(1<<20+8*len(wire)) {
		s.Violate("stack-growth-out-of-proportion", sig, fmt.Sprintf("%s: goroutine stacks grew by %d bytes while decoding (limit 1 MiB + 8 x input): recursion depth follows the peer's input", desc, sg))
		return
	}
	if capBytes > 0 && (p.Mut == "bloat" || p.Mut == "wide-ad" || p.Mut == "zkm-wide-ad" || p.Mut == "zkm-bloat" || p.Mut == "lenbloat") {
		consumed := int(ep.BytesIn())
		if derr == nil {
			s.Violate("cap-not-enforced", sig, fmt.Sprintf("%s: a value %d times the cap was accepted", desc, p.Val))
			return
		}
		if consumed > capBytes+2*(1<<20)+64 {
			s.Violate("cap-did-not-stop-consumption", sig, fmt.Sprintf("%s: %d bytes consumed from the connection for a cap of %d", desc, consumed, capBytes))
			return
		}
		s.Probe("cap-enforced")
	}
	if derr != nil {
		s.Probe("decoder-error")
	} else {
		s.Probe("decoder-ok")
	}
}

func firstFrames(stack string) string {
	lines := strings.Split(stack, "\n")
	var out []string
	for _, l := range lines {
		if strings.Contains(l, "github.com/bbockelm/cedar/") || strings.Contains(l, "panic") {
			out = append(out, strings.TrimSpace(l))
		}
		if len(out) > 12 {
			break
		}
	}
	return strings.Join(out, "\n")
}

// runFrames: hostile framing below the typed layer (plaintext).
func runFrames(s *kernel.Sim, p params) {
	ctx := context.Background()
	var wire []byte
	switch p.Mut {
	case "many-empty-partials":
		wire = bytes.Repeat(refcodec.MakeFrame(0, nil), int(p.Val))
		wire = append(wire, refcodec.MakeFrame(1, []byte("x"))...)
	case "huge-length":
		wire = []byte{1, 0, 0, 0, 0}
		binary.BigEndian.PutUint32(wire[1:], uint32(p.Val))
		wire = append(wire, []byte("short body")...)
	case "bad-end-flag":
		wire = refcodec.MakeFrame(byte(p.Val), []byte("payload"))
	case "partials-never-ending":
		wire = bytes.Repeat(refcodec.MakeFrame(0, []byte("abcdefgh")), int(p.Val))
	case "enc-short-first-frame", "enc-short-later-frame":
		// a keyed receiver is handed a frame too short to hold IV and/or tag
		key := s.T.Bytes("key", 32)
		if p.Mut == "enc-short-later-frame" {
			dir, _ := refcodec.NewGCMDir(key, nil)
			var iv [16]byte
			copy(iv[:], s.T.Bytes("iv", 16))
			wire = dir.Seal(0, []byte("first frame is fine"), iv)
		}
		wire = append(wire, refcodec.MakeFrame(1, bytes.Repeat([]byte{0x5a}, int(p.Val)))...)
		recvEnc := []func(st *stream.Stream) error{
			func(st *stream.Stream) error { _, err := st.ReceiveCompleteMessage(ctx); return err },
			func(st *stream.Stream) error { return st.StartMessageRead(ctx) },
			func(st *stream.Stream) error { _, err := st.ReceiveFrame(ctx); return err },
			func(st *stream.Stream) error { _, err := message.NewMessageFromStream(st).GetInt(ctx); return err },
		}
		dec := recvEnc[p.Frame%len(recvEnc)]
		feed(s, p, wire, 0, func(st *stream.Stream) error {
			st.SetSymmetricKey(key)
			return dec(st)
		})
		return
	}
	recv := []func(st *stream.Stream) error{
		func(st *stream.Stream) error { _, err := st.ReceiveCompleteMessage(ctx); return err },
		func(st *stream.Stream) error { return st.StartMessageRead(ctx) },
		func(st *stream.Stream) error {
			_, err := message.NewMessageFromStream(st).GetRemainingBytes(ctx)
			return err
		},
		func(st *stream.Stream) error { _, err := message.NewMessageFromStream(st).GetString(ctx); return err },
	}
	feed(s, p, wire, 0, recv[p.Frame%len(recv)])
}

// runBlob: arbitrary and mutated session-state blobs.
func runBlob(s *kernel.Sim, p params) {
	t := s.T
	var blob []byte
	switch p.Mut {
	case "random":
		blob = t.Bytes("blob", p.Off)
	case "magic-then-random":
		blob = append([]byte("CDRX\x00\x01"), t.Bytes("blob", p.Off)...)
	case "lengths":
		blob = append([]byte("CDRX\x00\x01"), make([]byte, 73)...)
		blob = append(blob, byte(p.Val>>8), byte(p.Val))
		blob = append(blob, t.Bytes("tail", p.Off)...)
	case "valid-cut":
		// a genuine exported state (two keyed streams, one protected message each way),
		// cut p.Off bytes short; every blob is handed over with capacity == length, as a
		// byte-exact message payload would be
		net0 := simnet.New(s, simnet.Config{})
		pr := hs.NewPair(net0, 91)
		key := t.Bytes("key", 32)
		pr.CS.SetSymmetricKey(key)
		pr.SS.SetSymmetricKey(key)
		bg := context.Background()
		s.Go("blob-a", func() {
			_ = pr.CS.SendMessage(bg, []byte("ping"))
			_, _ = pr.CS.ReceiveCompleteMessage(bg)
		})
		s.Go("blob-b", func() {
			_, _ = pr.SS.ReceiveCompleteMessage(bg)
			_ = pr.SS.SendMessage(bg, []byte("pong"))
		})
		s.Run()
		full, err := pr.CS.ExportCryptoState()
		if err != nil || p.Off > len(full) {
			s.Probe("mutation-out-of-range")
			return
		}
		blob = full[:len(full)-p.Off]
	}
	blob = append(make([]byte, 0, len(blob)), blob...)[:len(blob):len(blob)]
	before := allocBytes()
	var perr any
	func() {
		defer func() { perr = recover() }()
		_, _ = stream.NewStreamWithCryptoState(&sink{}, blob)
	}()
	after := allocBytes()
	if perr != nil {
		s.Violate("panic", "crypto-blob/"+p.Mut, fmt.Sprintf("blob of %d bytes: %v", len(blob), perr))
		return
	}
	if after-before > uint64(256<<10+64*len(blob)) {
		s.Violate("allocation-out-of-proportion", "crypto-blob/"+p.Mut, fmt.Sprintf("%d bytes allocated for a %d-byte blob", after-before, len(blob)))
	}
	s.Probe("blob-handled")
}

// recordTranscripts runs one honest cleartext handshake and returns the frames each side sent.
func recordTranscripts(s *kernel.Sim, method security.AuthMethod, sw *hs.SSLWorld) (cf, sf []refcodec.Frame) {
	t := s.T
	ctx := context.Background()
	net0 := simnet.New(s, simnet.Config{})
	pr := hs.NewPair(net0, 90)
	tw := hs.NewTokenWorld(t)
	ccfg := hs.Cfg(security.SecurityRequired, security.SecurityOptional, []security.AuthMethod{method}, hs.AES, 60021)
	ccfg.SessionCache = security.NewSessionCache()
	ccfg.TrustDomain = tw.Issuer
	ccfg.Token = tw.Token(hs.Now()-10, hs.Now()+3600)
	scfg := hs.Cfg(security.SecurityRequired, security.SecurityOptional, []security.AuthMethod{method}, []security.CryptoMethod{security.CryptoBlowfish}, security.NoCommand)
	tw.ServerToken(scfg)
	if sw != nil {
		sw.Client(ccfg)
		sw.Server(scfg)
	}
	s.Go("rec-client", func() {
		_, err := security.NewAuthenticator(ccfg, pr.CS).ClientHandshake(ctx)
		s.Note("recording: client handshake ended with %v", err)
		pr.CE.Close()
	})
	s.Go("rec-server", func() {
		_, err := security.NewAuthenticator(scfg, pr.SS).ServerHandshake(ctx)
		s.Note("recording: server handshake ended with %v", err)
		pr.SE.Close()
	})
	s.Run()
	cf, _ = refcodec.ParseFrames(pr.CE.SentBytes())
	sf, _ = refcodec.ParseFrames(pr.SE.SentBytes())
	return
}

// runHandshake: the real handshake entry points fed with a mutated recording of the other side.
func runHandshake(s *kernel.Sim, p params) {
	t := s.T
	ctx := context.Background()
	method := security.AuthClaimToBe
	if strings.Contains(p.Entry, "token") {
		method = security.AuthToken
	}
	if strings.Contains(p.Entry, "ssl") {
		// the SSL method tunnels TLS records in (status, length, bytes) messages; the honest
		// recording ends where the two Go halves stop (the server holds no certificate), which
		// is after the client's first TLS message
		method = security.AuthSSL
	}
	var sw *hs.SSLWorld
	if method == security.AuthSSL {
		var err error
		if sw, err = hs.NewSSLWorld(); err != nil {
			s.Violate("harness", "ssl-world", err.Error())
			return
		}
		defer sw.Close()
	}
	cf, sf := recordTranscripts(s, method, sw)
	serverUnderTest := strings.HasPrefix(p.Entry, "handshake-server")
	if method == security.AuthSSL && !serverUnderTest && len(sf) == 3 {
		// what a server would send next: one tunnelled TLS message (status, length, bytes)
		tlsmsg := make([]byte, 16, 64)
		tlsmsg[7], tlsmsg[15] = 2, 40
		tlsmsg = append(tlsmsg, t.Bytes("tls-bytes", 40)...)
		sf = append(sf, refcodec.Frame{End: 1, Payload: tlsmsg, Raw: refcodec.MakeFrame(1, tlsmsg)})
	}
	frames := sf
	if serverUnderTest {
		frames = cf
	}
	if p.Frame >= len(frames) {
		s.Probe("frame-beyond-transcript")
		return
	}
	var wire []byte
	for i, f := range frames {
		raw := f.Raw
		if i == p.Frame {
			mp, note := mutate(t, p, f.Payload, 4096)
			if note == "skip" {
				s.Probe("mutation-out-of-range")
				return
			}
			raw = refcodec.MakeFrame(f.End, mp)
		}
		wire = append(wire, raw...)
	}
	tw := hs.NewTokenWorld(t)
	feed(s, p, wire, 0, func(st *stream.Stream) error {
		if serverUnderTest {
			scfg := hs.Cfg(security.SecurityRequired, security.SecurityOptional, []security.AuthMethod{method}, []security.CryptoMethod{security.CryptoBlowfish}, security.NoCommand)
			tw.ServerToken(scfg)
			if sw != nil {
				sw.Server(scfg)
			}
			_, err := security.NewAuthenticator(scfg, st).ServerHandshake(ctx)
			s.Note("server under test: %v", err)
			return err
		}
		ccfg := hs.Cfg(security.SecurityRequired, security.SecurityOptional, []security.AuthMethod{method}, hs.AES, 60021)
		ccfg.SessionCache = security.NewSessionCache()
		ccfg.TrustDomain = tw.Issuer
		ccfg.Token = tw.Token(hs.Now()-10, hs.Now()+3600)
		if sw != nil {
			sw.Client(ccfg)
		}
		_, err := security.NewAuthenticator(ccfg, st).ClientHandshake(ctx)
		s.Note("client under test: %v", err)
		return err
	})
}

// runText: the text parsers named by the property are pure functions of a string; they are
// fed mutated strings by a plain loop (a non-simulation add-on, reported separately).
func runText(s *kernel.Sim, p params) {
	t := s.T
	seeds := []string{
		"<10.0.0.2:9618?addrs=10.0.0.2-9618&noUDP&sock=startd_1234_abcd>#1700000000#5#[Encryption=\"YES\";Integrity=\"YES\";CryptoMethods=\"AES\";SessionExpires=1700003600;ValidCommands=\"443,444\";]0123456789abcdef",
		"[Encryption=\"YES\";Integrity=\"NO\";CryptoMethodsList=\"AES.BLOWFISH\";ShortVersion=\"25.4.0\";]",
		"<[fe80::1]:9618?sock=x&alias=h>", "<10.0.0.2:9618?CCBID=10.0.0.9:9618%3fsock%3dcollector#7&noUDP>",
		"$CondorVersion: 25.4.0 2025-10-31 BuildID: 847437 PackageID: 25.4.0-0.847437 GitSHA: a6507f91 RC $",
		"p:session_id:[Encryption=\"YES\";]key f:family_id:[CryptoMethods=\"AES\";]fkey",
	}
	base := seeds[p.Off%len(seeds)]
	b := []byte(base)
	nm := 1 + t.Choose("nmut", 4)
	for i := 0; i < nm && len(b) > 0; i++ {
		pos := t.Choose("pos", len(b))
		switch t.Choose("kind", 5) {
		case 0:
			b[pos] = kernel.Pick(t, "ch", byte('#'), byte('['), byte(']'), byte('<'), byte('>'), byte('"'), byte(';'), byte(0), byte(0xff), byte(':'), byte('?'), byte('&'), byte('='))
		case 1:
			b = append(b[:pos], b[pos+1:]...)
		case 2:
			b = append(b[:pos], append(bytes.Repeat([]byte{b[pos]}, 1+t.Choose("rep", 2000)), b[pos:]...)...)
		case 3:
			b = b[:pos]
		case 4:
			b = append(append([]byte(nil), b[pos:]...), b[:pos]...)
		}
	}
	in := string(b)
	before := allocBytes()
	var perr any
	var pstack string
	func() {
		defer func() {
			if perr = recover(); perr != nil {
				pstack = firstFrames(string(debug.Stack()))
			}
		}()
		c1 := security.ParseClaimIDStrict(in)
		_ = c1.SecSessionID()
		_ = c1.PublicClaimID()
		_, _ = security.ImportSecSessionInfo(in)
		_ = security.ParseClaimID(in)
		_ = security.ParseCondorPrivateInherit(in)
		_, _ = security.ImportSessionInfoAttributes(in)
		_, _ = addresses.ParseSinful(in)
		_ = addresses.ParseHTCondorAddress(in)
		_, _ = version.Parse(in)
	}()
	after := allocBytes()
	if perr != nil {
		s.Violate("panic", "text-parsers", fmt.Sprintf("%v\n%s\ninput %q", perr, pstack, in))
		return
	}
	if after-before > uint64(256<<10+256*len(in)) {
		s.Violate("allocation-out-of-proportion", "text-parsers", fmt.Sprintf("%d bytes allocated for a %d-byte string", after-before, len(in)))
	}
	s.Probe("text-parsed")
}

func gen(g *scen.Gen) {
	seed := g.Seed * 15485867
	emit := func(p params) bool {
		seed++
		return g.Emit(scen.Case{Seed: seed, Params: scen.Params(p)})
	}
	step := 1
	if g.Quick() {
		step = 3
	}
	for i := range entries {
		e := &entries[i]
		for _, enc := range []bool{false, true} {
			n := len(renderPlain(e, enc))
			if !emit(params{Entry: e.name, Enc: enc, Mut: "none"}) {
				return
			}
			// every 8-byte window overwritten with every extreme value (length and count fields included)
			for off := 0; off+8 <= n; off += step {
				for _, v := range extremes {
					if !emit(params{Entry: e.name, Enc: enc, Mut: "int8", Off: off, Val: v}) {
						return
					}
				}
			}
			for off := 0; off < n; off += step {
				if !emit(params{Entry: e.name, Enc: enc, Mut: "flip", Off: off, Val: int64(1 << uint(off%8))}) {
					return
				}
			}
			for off := 0; off <= n; off += step {
				if !emit(params{Entry: e.name, Enc: enc, Mut: "cut", Off: off}) {
					return
				}
			}
			for k := 0; k < 12; k++ {
				if !emit(params{Entry: e.name, Enc: enc, Mut: "del-nul", Off: k}) || !emit(params{Entry: e.name, Enc: enc, Mut: "zkm", Off: k}) {
					return
				}
			}
			if e.cap > 0 {
				for _, off := range []int{0, 8, n / 2} { // inside values the decoder does read
					for _, times := range []int64{10, 100} {
						if e.cap*int(times) > 8<<20 {
							continue
						}
						if !emit(params{Entry: e.name, Enc: enc, Mut: "bloat", Off: off, Val: times}) {
							return
						}
					}
				}
				if enc {
					off := 0
					switch e.name {
					case "classad-capped", "ccb-control-ad":
						off = 8 // first expression string, after the count
					case "ccb-reverse-connect":
						off = 16
					}
					if !emit(params{Entry: e.name, Enc: true, Mut: "lenbloat", Off: off}) {
						return
					}
				}
				if strings.Contains(e.name, "ad") {
					for k := 0; k < 4; k++ {
						for _, times := range []int64{10, 100} {
							if e.cap*int(times) > 8<<20 {
								continue
							}
							if !emit(params{Entry: e.name, Enc: enc, Mut: "zkm-bloat", Off: k, Val: times}) {
								return
							}
						}
					}
				}
				if !enc && strings.Contains(e.name, "ad") {
					off := 0
					if e.name == "ccb-reverse-connect" {
						off = 8 // after the command integer
					}
					for _, times := range []int64{3, 10, 30} {
						if e.cap*int(times) > 8<<20 {
							continue
						}
						if !emit(params{Entry: e.name, Mut: "wide-ad", Off: off, Val: times}) || !emit(params{Entry: e.name, Mut: "zkm-wide-ad", Off: off, Val: times}) {
							return
						}
					}
				}
			}
		}
	}
	// hostile framing
	for recv := 0; recv < 4; recv++ {
		for n := int64(0); n <= 40; n++ {
			if !emit(params{Entry: "frames", Enc: true, Mut: "enc-short-first-frame", Val: n, Frame: recv}) || !emit(params{Entry: "frames", Enc: true, Mut: "enc-short-later-frame", Val: n, Frame: recv}) {
				return
			}
		}
		for _, v := range []int64{1000, 200000} {
			if !emit(params{Entry: "frames", Mut: "many-empty-partials", Val: v, Frame: recv}) || !emit(params{Entry: "frames", Mut: "partials-never-ending", Val: v / 10, Frame: recv}) {
				return
			}
		}
		for _, v := range []int64{0, 1, 1 << 20, 1<<20 + 1, 1<<31 - 1, 1 << 31, 0xffffffff} {
			if !emit(params{Entry: "frames", Mut: "huge-length", Val: v, Frame: recv}) {
				return
			}
		}
		for _, v := range []int64{2, 10, 11, 255} {
			if !emit(params{Entry: "frames", Mut: "bad-end-flag", Val: v, Frame: recv}) {
				return
			}
		}
	}
	// session-state blobs
	for _, n := range []int{0, 1, 5, 6, 78, 79, 80, 100, 164, 400} {
		for _, m := range []string{"random", "magic-then-random"} {
			if !emit(params{Entry: "crypto-blob", Mut: m, Off: n}) {
				return
			}
		}
	}
	for _, v := range []int64{0, 1, 32, 33, 0x7fff, 0xffff} {
		if !emit(params{Entry: "crypto-blob", Mut: "lengths", Off: 40, Val: v}) {
			return
		}
	}
	for cut := 0; cut < 200; cut++ {
		if !emit(params{Entry: "crypto-blob", Mut: "valid-cut", Off: cut}) {
			return
		}
	}
	// handshake entry points fed with a mutated recording of the peer
	for _, ent := range []string{"handshake-server-claimtobe", "handshake-server-token", "handshake-client-claimtobe", "handshake-client-token", "handshake-server-ssl", "handshake-client-ssl"} {
		nfr := 6
		if strings.HasSuffix(ent, "ssl") {
			nfr = 12 // the tunnelled TLS flights, the completion confirmations and the session key
		}
		for fr := 0; fr < nfr; fr++ {
			if !emit(params{Entry: ent, Mut: "none", Frame: fr}) {
				return
			}
			if strings.HasSuffix(ent, "ssl") {
				// the status and length fields of a tunnelled TLS message, whatever the tier's stride
				for _, off := range []int{0, 8, 16} {
					for _, v := range []int64{-1, 1 << 31, 1 << 40, 1 << 62, -1 << 63, 70000} {
						if !emit(params{Entry: ent, Mut: "int8", Off: off, Val: v, Frame: fr}) {
							return
						}
					}
				}
			}
			hstep := 8
			if g.Quick() {
				hstep = 24
			}
			for off := 0; off < 700; off += hstep {
				for _, v := range []int64{-1, 1 << 31, 1 << 62, -1 << 63, 0, 70000} {
					if !emit(params{Entry: ent, Mut: "int8", Off: off, Val: v, Frame: fr}) {
						return
					}
				}
				if !emit(params{Entry: ent, Mut: "cut", Off: off, Frame: fr}) || !emit(params{Entry: ent, Mut: "flip", Off: off, Val: 0x80, Frame: fr}) {
					return
				}
			}
			for k := 0; k < 8; k++ {
				if !emit(params{Entry: ent, Mut: "del-nul", Off: k, Frame: fr}) || !emit(params{Entry: ent, Mut: "zkm", Off: k, Frame: fr}) {
					return
				}
			}
			if !emit(params{Entry: ent, Mut: "bloat", Off: 8, Val: 100, Frame: fr}) {
				return
			}
		}
	}
	// text parsers (non-simulation add-on)
	ntext := 4000
	if g.Quick() {
		ntext = 600
	}
	for i := 0; i < ntext; i++ {
		if !emit(params{Entry: "text-parsers", Mut: "text", Off: i}) {
			return
		}
	}
}

func init() {
	scen.StuckSig = func(c *scen.Case) string {
		var p params
		c.P(&p)
		return sigOf(p)
	}
}

var scenarios = []*scen.Scenario{{Name: "decoders", Enumerated: true, Gen: gen, Run: run, WallLimit: 20 * time.Second}}

func TestScenario(t *testing.T) { scen.Main(t, "C13", scenarios) }
