// C18 — filesystem authentication cannot be steered outside its directory. The
// real FS client (through a real client handshake negotiated to FS) faces a
// scripted server that sends paths from a grammar, with connection faults at
// every I/O step of the exchange; the real FS server faces a scripted client
// that leaves every kind of object at the path. The filesystem is the real one;
// every object the run could create carries a per-run token, and hostile targets
// point into a per-run sandbox tree, so effects are attributable.
package c18

import (
	"context"
	"fmt"
	stdnet "net"
	"os"
	"os/user"
	"path/filepath"
	"sort"
	"strings"
	"syscall"
	"testing"
	"time"

	"cedarsim/hs"
	"cedarsim/kernel"
	"cedarsim/puppet"
	"cedarsim/scen"
	"cedarsim/simnet"

	"github.com/bbockelm/cedar/message"
	"github.com/bbockelm/cedar/security"
	"github.com/bbockelm/cedar/stream"
)

type params struct {
	Kind   string `json:"kind"` // client | client-fault | server
	Path   int    `json:"path"`
	Fault  string `json:"fault,omitempty"` // reset | stall-cancel
	K      int    `json:"k,omitempty"`
	Object string `json:"object,omitempty"`
	V6     bool   `json:"v6,omitempty"`    // client cases: the live connection is to an IPv6 endpoint
	Trail  int    `json:"trail,omitempty"` // client cases: the path message is not cleanly terminated: 1 a stray integer follows the path, 2 the message ends in a partial frame and the server hangs up
}

const sandboxParent = "/var/tmp"

type env struct {
	token   string
	sandbox string // outside /tmp, /repo and /verif
	link    string // /tmp/<token>link -> sandbox
	subdir  string // /tmp/<token>sub (a pre-existing directory under the base)
}

func mkenv(seed uint64) *env {
	tok := fmt.Sprintf("v%dx%d", os.Getpid()%100000, seed%1000000)
	if len(tok) > 14 {
		tok = tok[:14]
	}
	e := &env{token: tok}
	e.sandbox = filepath.Join(sandboxParent, "c18_"+tok)
	e.link = "/tmp/c18l" + tok
	e.subdir = "/tmp/c18s" + tok
	_ = os.RemoveAll(e.sandbox)
	_ = os.MkdirAll(filepath.Join(e.sandbox, "inner"), 0o755)
	_ = os.Remove(e.link)
	_ = os.Symlink(e.sandbox, e.link)
	_ = os.RemoveAll(e.subdir)
	_ = os.Mkdir(e.subdir, 0o755)
	return e
}

func (e *env) cleanup() {
	_ = os.RemoveAll(e.sandbox)
	_ = os.Remove(e.link)
	_ = os.RemoveAll(e.subdir)
	// anything token-tagged the client may have left directly under /tmp
	ents, _ := os.ReadDir("/tmp")
	for _, en := range ents {
		if strings.Contains(en.Name(), e.token) {
			_ = os.RemoveAll(filepath.Join("/tmp", en.Name()))
		}
	}
}

// snapshot lists token-tagged entries of /tmp and the whole sandbox tree with types and modes.
func (e *env) snapshot() []string {
	var out []string
	ents, _ := os.ReadDir("/tmp")
	for _, en := range ents {
		if strings.Contains(en.Name(), e.token) {
			fi, err := os.Lstat(filepath.Join("/tmp", en.Name()))
			if err == nil {
				out = append(out, fmt.Sprintf("/tmp/%s %v", en.Name(), fi.Mode()))
				if fi.IsDir() {
					_ = filepath.Walk(filepath.Join("/tmp", en.Name()), func(p string, info os.FileInfo, err error) error {
						if err == nil && p != filepath.Join("/tmp", en.Name()) {
							out = append(out, fmt.Sprintf("%s %v", p, info.Mode()))
						}
						return nil
					})
				}
			}
		}
	}
	_ = filepath.Walk(e.sandbox, func(p string, info os.FileInfo, err error) error {
		if err == nil {
			out = append(out, fmt.Sprintf("%s %v", p, info.Mode()))
		}
		return nil
	})
	sort.Strings(out)
	return out
}

type pathCase struct {
	name string
	path string
	// acceptable: the statement allows the client to create exactly this directory
	acceptable bool
}

// paths builds the grammar instance for a run. peer is the address the client is really connected to.
func paths(e *env, peerIP, peerPort string) []pathCase {
	t := e.token
	ok := "/tmp/FS_" + t
	return []pathCase{
		{"recognised-local", ok, true},
		{"recognised-addr-qualified", fmt.Sprintf("/tmp/FS_%s_%s_%s", peerIP, peerPort, t), true},
		{"addr-qualified-wrong-ip", fmt.Sprintf("/tmp/FS_10.66.66.66_%s_%s", peerPort, t), false},
		{"addr-qualified-wrong-port", fmt.Sprintf("/tmp/FS_%s_1_%s", peerIP, t), false},
		{"addr-qualified-ipv6", fmt.Sprintf("/tmp/FS_::1_%s_%s", peerPort, t), false},
		{"addr-qualified-other-ipv6", fmt.Sprintf("/tmp/FS_fd00::99_%s_%s", peerPort, t), false},
		{"addr-qualified-other-ipv4", fmt.Sprintf("/tmp/FS_10.0.0.3_%s_%s", peerPort, t), false},
		{"addr-qualified-hostname", fmt.Sprintf("/tmp/FS_host.example.org_%s_%s", peerPort, t), false},
		{"addr-qualified-port-too-long", fmt.Sprintf("/tmp/FS_%s_961800_%s", peerIP, t), false},
		{"addr-qualified-suffix-dot", fmt.Sprintf("/tmp/FS_%s_%s_%s.x", peerIP, peerPort, t), false},
		{"addr-qualified-suffix-dash", fmt.Sprintf("/tmp/FS_%s_%s_%s-x", peerIP, peerPort, t), false},
		{"addr-qualified-suffix-too-long", fmt.Sprintf("/tmp/FS_%s_%s_%s01234567890123456", peerIP, peerPort, t), false},
		{"addr-qualified-suffix-control", fmt.Sprintf("/tmp/FS_%s_%s_%s\x01", peerIP, peerPort, t), false},
		{"addr-qualified-suffix-empty", fmt.Sprintf("/tmp/FS_%s_%s_", peerIP, peerPort), false},
		{"addr-qualified-remote-suffix-dot", fmt.Sprintf("/tmp/FS_REMOTE_%s_%s_%s.x", peerIP, peerPort, t), false},
		{"empty", "", false},
		{"relative", "FS_" + t, false},
		{"relative-tmp", "tmp/FS_" + t, false},
		{"dot-relative", "./FS_" + t, false},
		{"other-dir", e.sandbox + "/FS_" + t, false},
		{"other-dir-inner", e.sandbox + "/inner/FS_" + t, false},
		{"traversal", "/tmp/../" + strings.TrimPrefix(e.sandbox, "/") + "/FS_" + t, false},
		{"traversal-back-into-tmp", "/tmp/x/../FS_" + t, false},
		{"dot-component", "/tmp/./FS_" + t, false},
		{"double-slash", "/tmp//FS_" + t, false},
		{"trailing-slash", "/tmp/FS_" + t + "/", false},
		{"trailing-dotdot", "/tmp/FS_" + t + "/..", false},
		{"nested-under-existing-subdir", e.subdir + "/FS_" + t, false},
		{"nested-two-levels", "/tmp/FS_" + t + "/FS_" + t, false},
		{"symlinked-parent", e.link + "/FS_" + t, false},
		{"base-itself", "/tmp", false},
		{"root", "/", false},
		{"near-miss-lowercase", "/tmp/fs_" + t, false},
		{"near-miss-no-suffix", "/tmp/FS_", false},
		{"near-miss-prefix", "/tmp/FSX_" + t, false},
		{"near-miss-too-long", "/tmp/FS_" + t + "0123456789abcdefg", false},
		{"near-miss-punctuation", "/tmp/FS_" + t + "!", false},
		{"near-miss-dash", "/tmp/FS_" + t + "-1", false},
		{"near-miss-remote-shape", "/tmp/FS_REMOTE_host_1_" + t, false},
		{"near-miss-dotdot-leaf", "/tmp/FS_" + t + "..", false},
		{"leading-space", " /tmp/FS_" + t, false},
		{"control-newline", "/tmp/FS_" + t + "\n", false},
		{"control-tab-inside", "/tmp/FS_\t" + t, false},
		{"non-ascii", "/tmp/FS_" + t + "é", false},
		{"over-long", "/tmp/FS_" + t + strings.Repeat("a", 3000), false},
		{"tmp-prefix-sibling", "/tmpx/FS_" + t, false},
		{"dev-shm", "/dev/shm/FS_" + t, false},
	}
}

func runClient(s *kernel.Sim, c *scen.Case, p params) {
	t := s.T
	e := mkenv(c.Seed)
	defer e.cleanup()
	peerIP := "10.0.0.2"
	if p.V6 {
		peerIP = "fd00::2"
	}
	pcs := paths(e, peerIP, "9618")
	pc := pcs[p.Path%len(pcs)]
	if p.Kind == "client" && p.Path >= len(pcs) {
		// mutation of an accepted path: flip / insert / delete one character
		base := pcs[(p.Path-len(pcs))%2].path
		b := []byte(base)
		pos := t.Choose("mutpos", len(b))
		switch t.Choose("mutkind", 3) {
		case 0:
			b[pos] = kernel.Pick(t, "mutch", byte('/'), byte('.'), byte('_'), byte(0x01), byte('*'), byte(' '), byte('A'), byte('9'))
		case 1:
			b = append(b[:pos], b[pos+1:]...)
		case 2:
			b = append(b[:pos], append([]byte{kernel.Pick(t, "insch", byte('/'), byte('.'), byte('x'))}, b[pos:]...)...)
		}
		pc = pathCase{name: "mutated-accepted-path", path: string(b)}
		// whether the mutant is still acceptable is judged by the statement's own rule
		pc.acceptable = acceptableByStatement(pc.path, e.token, peerIP, "9618")
	}
	before := e.snapshot()
	existedBefore := false
	if pc.path != "" {
		if _, err := os.Lstat(pc.path); err == nil {
			existedBefore = true // e.g. the base directory itself, or "/"
		}
	}
	if !existedBefore && strings.HasPrefix(pc.path, "/tmp/FS_") && !strings.Contains(pc.path[len("/tmp/"):], "/") {
		// whatever a broken client leaves at the exact path it was given goes away with the case (a
		// mutated path no longer carries the whole token, so the token sweep would not find it)
		defer os.RemoveAll(pc.path)
	}
	ctx, cancel := context.WithCancel(context.Background())
	defer cancel()
	net := simnet.New(s, simnet.Config{MaxLatency: 10 * time.Millisecond, ShortReads: t.Choose("short", 2) == 1})
	pr := hs.NewPair(net, 1)
	if p.V6 {
		ce, se := net.Pipe("cli1", "srv1", "[fd00::1]:50001", "[fd00::2]:9618")
		ce.Tap()
		se.Tap()
		pr = &hs.Pair{Net: net, CE: ce, SE: se, CS: stream.NewStream(ce), SS: stream.NewStream(se)}
	}
	cfg := hs.Cfg(security.SecurityRequired, security.SecurityOptional, []security.AuthMethod{security.AuthFS}, hs.AES, 60021)
	cfg.SessionCache = security.NewSessionCache()
	var cerr error
	returned := false
	clientResult := -99
	existedDuring := false
	var duringMode os.FileMode
	stallStarted := false
	fsOps := 0 // I/O steps of the client since the FS exchange began
	inFS := false
	if p.Fault != "" {
		pr.CE.OnOp = func(op simnet.Op) simnet.Action {
			if !inFS {
				return simnet.Proceed
			}
			fsOps++
			if fsOps == p.K {
				if p.Fault == "reset" {
					return simnet.Reset
				}
				stallStarted = true
				return simnet.Stall
			}
			return simnet.Proceed
		}
	}
	s.Go("client", func() {
		_, cerr = security.NewAuthenticator(cfg, pr.CS).ClientHandshake(ctx)
		returned = true
		pr.CE.Close()
	})
	var rec *puppet.Record
	s.Go("scripted-server", func() {
		rec = puppet.Server(context.Background(), pr.SS, puppet.ServerOpts{Methods: []string{"FS"}, Authenticate: true, Encrypt: true, User: "root@localhost",
			OnMethod: func(sctx context.Context, st *stream.Stream, sel int) (string, string, error) {
				inFS = true
				m := message.NewMessageForStream(st)
				_ = m.PutString(sctx, pc.path)
				switch p.Trail {
				case 1: // something follows the path inside the same message
					_ = m.PutInt(sctx, 7)
				case 2: // the message is never finished: a partial frame, then the connection goes away
					_ = m.FlushFrame(sctx, false)
					return "", "", fmt.Errorf("scripted server hangs up inside its path message")
				}
				if err := m.FinishMessage(sctx); err != nil {
					return "", "", err
				}
				rm := message.NewMessageFromStream(st)
				r, err := rm.GetInt(sctx)
				if err != nil {
					return "", "", fmt.Errorf("client result: %w", err)
				}
				clientResult = r
				// what is at the path right now?
				if pc.path != "" {
					if fi, err := os.Lstat(pc.path); err == nil {
						existedDuring, duringMode = true, fi.Mode()
					}
				}
				verdict := -1
				if r == 0 {
					verdict = 0
				}
				vm := message.NewMessageForStream(st)
				_ = vm.PutInt(sctx, verdict)
				if err := vm.FinishMessage(sctx); err != nil {
					return "", "", err
				}
				if verdict != 0 {
					return "", "", fmt.Errorf("client reported failure (%d)", r)
				}
				return "FS", "root", nil
			}})
		pr.SE.Close()
	})
	if p.Fault == "stall-cancel" {
		s.Go("canceller", func() {
			for i := 0; i < 2000 && !stallStarted && !returned; i++ {
				s.Sleep("cw", 10*time.Millisecond)
			}
			s.Sleep("cd", 500*time.Millisecond)
			cancel()
		})
	}
	s.Run()
	pr.CE.CloseQuiet()
	pr.SE.CloseQuiet()
	after := e.snapshot()
	_ = rec
	sig := pc.name
	if p.Fault != "" {
		sig = fmt.Sprintf("%s/%s-at-fs-step-%d", pc.name, p.Fault, p.K)
	}
	desc := fmt.Sprintf("server-supplied path %q (%s), fault %q at FS I/O step %d: client returned=%v err=%v, client result=%d, object at path during exchange=%v (%v)", pc.path, pc.name, p.Fault, p.K, returned, cerr, clientResult, existedDuring, duringMode)
	s.Note("%s", desc)
	for _, tk := range s.Tasks() {
		if tk.Panic != nil {
			s.Violate("panic", sig, fmt.Sprintf("task %s: %v\n%s", tk.Name, tk.Panic, tk.Stack))
			return
		}
	}
	if !returned {
		if p.Fault == "" {
			s.Violate("client-did-not-return", sig, desc)
		}
		return
	}
	// whatever was created is gone once the call has returned, however it returned
	if diff := diffSnap(before, after); diff != "" {
		s.Violate("filesystem-changed-after-exchange", sig, fmt.Sprintf("%s: filesystem differs after the client returned: %s", desc, diff))
		return
	}
	if p.Trail > 0 {
		// a path message that is not cleanly terminated: the client may refuse it in any way it likes;
		// what is judged is that nothing stays behind (above)
		s.Probe("unterminated-path-message-left-nothing")
		return
	}
	if !pc.acceptable {
		if existedDuring && !existedBefore && !contains(before, pc.path) {
			s.Violate("directory-created-for-unacceptable-path", sig, desc)
			return
		}
		if clientResult == 0 {
			s.Violate("success-reported-for-unacceptable-path", sig, desc)
			return
		}
		if clientResult == -99 && p.Fault == "" {
			s.Violate("no-clean-failure-reply", sig, desc)
			return
		}
		s.Probe("unacceptable-path-refused")
	} else {
		if existedDuring {
			if !duringMode.IsDir() || duringMode.Perm() != 0o700 {
				s.Violate("created-object-not-owner-only-directory", sig, desc)
				return
			}
			s.Probe("acceptable-path-directory-created-and-removed")
		}
		if p.Fault == "" && cerr != nil {
			s.Violate("acceptable-path-refused", sig, desc)
		}
	}
}

// acceptableByStatement is the statement's rule, written independently: directly under
// the fixed base, a recognised leaf shape, and an address-qualified leaf names the real peer.
func acceptableByStatement(p, token, peerIP, peerPort string) bool {
	if !strings.HasPrefix(p, "/tmp/") {
		return false
	}
	leaf := p[len("/tmp/"):]
	if leaf == "" || strings.ContainsAny(leaf, "/\x00") {
		return false
	}
	if !strings.HasPrefix(leaf, "FS_") {
		return false
	}
	rest := leaf[3:]
	alnum := func(x string) bool {
		if len(x) < 1 || len(x) > 16 {
			return false
		}
		for _, c := range x {
			if !(c >= '0' && c <= '9' || c >= 'a' && c <= 'z' || c >= 'A' && c <= 'Z') {
				return false
			}
		}
		return true
	}
	if alnum(rest) {
		return true
	}
	f := strings.Split(rest, "_")
	if len(f) == 3 && alnum(f[2]) {
		a, b := stdnet.ParseIP(f[0]), stdnet.ParseIP(peerIP)
		return a != nil && b != nil && a.Equal(b) && f[1] == peerPort
	}
	return false
}

func contains(snap []string, path string) bool {
	for _, l := range snap {
		if strings.HasPrefix(l, path+" ") {
			return true
		}
	}
	return false
}

func diffSnap(a, b []string) string {
	am, bm := map[string]bool{}, map[string]bool{}
	for _, x := range a {
		am[x] = true
	}
	for _, x := range b {
		bm[x] = true
	}
	var d []string
	for _, x := range b {
		if !am[x] {
			d = append(d, "+"+x)
		}
	}
	for _, x := range a {
		if !bm[x] {
			d = append(d, "-"+x)
		}
	}
	return strings.Join(d, "; ")
}

var objects = []string{"proper-0700-dir", "nothing", "regular-file", "symlink-to-dir", "dir-0755", "dir-0777", "dir-with-subdir", "dir-0700-then-replaced-by-symlink", "dir-0700-owned-by-unmapped-uid", "proper-0700-dir-other-group", "unix-socket-0700", "fifo-0700"}

func runServer(s *kernel.Sim, c *scen.Case, p params) {
	t := s.T
	ctx := context.Background()
	net := simnet.New(s, simnet.Config{MaxLatency: time.Duration(t.Choose("lat", 2)) * 5 * time.Millisecond})
	pr := hs.NewPair(net, 1)
	scfg := hs.Cfg(security.SecurityRequired, security.SecurityOptional, []security.AuthMethod{security.AuthFS}, hs.AES, security.NoCommand)
	var sn *security.SecurityNegotiation
	var serr error
	given := ""
	chownFailed := false
	target := filepath.Join(sandboxParent, fmt.Sprintf("c18t_%d_%d", os.Getpid(), c.Seed%100000))
	_ = os.RemoveAll(target)
	_ = os.Mkdir(target, 0o700)
	defer os.RemoveAll(target)
	s.Go("server", func() {
		sn, serr = security.NewAuthenticator(scfg, pr.SS).ServerHandshake(ctx)
		pr.SE.Close()
	})
	s.Go("scripted-client", func() {
		_ = puppet.Client(ctx, pr.CS, puppet.ClientOpts{Methods: []string{"FS"}, Auth: "REQUIRED", Enc: "OPTIONAL", Command: 60021,
			OnSelect: func(cctx context.Context, st *stream.Stream, sel int) (string, string, error) {
				m := message.NewMessageFromStream(st)
				path, err := m.GetString(cctx)
				if err != nil {
					return "", "", err
				}
				given = path
				if !strings.HasPrefix(path, "/tmp/FS_") {
					return "", "", fmt.Errorf("server generated an unexpected path %q", path)
				}
				switch p.Object {
				case "proper-0700-dir":
					_ = os.Mkdir(path, 0o700)
				case "nothing":
				case "regular-file":
					_ = os.WriteFile(path, []byte("x"), 0o700)
				case "symlink-to-dir":
					_ = os.Symlink(target, path)
				case "dir-0755":
					_ = os.Mkdir(path, 0o755)
					_ = os.Chmod(path, 0o755)
				case "dir-0777":
					_ = os.Mkdir(path, 0o777)
					_ = os.Chmod(path, 0o777)
				case "dir-with-subdir":
					_ = os.Mkdir(path, 0o700)
					_ = os.Mkdir(filepath.Join(path, "sub"), 0o700)
				case "dir-0700-then-replaced-by-symlink":
					_ = os.Mkdir(path, 0o700)
					_ = os.Remove(path)
					_ = os.Symlink(target, path)
				case "unix-socket-0700":
					// not a directory, although its type bits share one with a directory's (S_IFSOCK = 0140000)
					if fd, err := syscall.Socket(syscall.AF_UNIX, syscall.SOCK_STREAM, 0); err == nil {
						_ = syscall.Bind(fd, &syscall.SockaddrUnix{Name: path})
						_ = syscall.Close(fd)
						_ = os.Chmod(path, 0o700)
					}
				case "fifo-0700":
					_ = syscall.Mkfifo(path, 0o700)
					_ = os.Chmod(path, 0o700)
				case "proper-0700-dir-other-group":
					// the client's own 0700 directory, its group changed to another one the client may use
					// (setgid base directory, supplementary group): still the client's, and only the client's
					_ = os.Mkdir(path, 0o700)
					if err := os.Chown(path, -1, otherGid()); err != nil {
						chownFailed = true
					}
				case "dir-0700-owned-by-unmapped-uid":
					// a perfectly shaped directory whose owner has no account name (container or
					// NFS uid, deleted account); needs root for the chown
					_ = os.Mkdir(path, 0o700)
					if err := os.Chown(path, 54321, 54321); err != nil {
						chownFailed = true
					}
				}
				r := message.NewMessageForStream(st)
				_ = r.PutInt(cctx, 0)
				if err := r.FinishMessage(cctx); err != nil {
					return "", "", err
				}
				vm := message.NewMessageFromStream(st)
				v, err := vm.GetInt(cctx)
				if err != nil {
					return "", "", err
				}
				if v != 0 {
					return "", "", fmt.Errorf("server verdict %d", v)
				}
				return "FS", "scripted", nil
			}})
		pr.CE.Close()
	})
	s.Run()
	pr.CE.CloseQuiet()
	pr.SE.CloseQuiet()
	defer func() {
		if given != "" && strings.HasPrefix(given, "/tmp/FS_") {
			_ = os.RemoveAll(given)
		}
	}()
	desc := fmt.Sprintf("scripted client left %q at the server's path %q: server err=%v", p.Object, given, serr)
	s.Note("%s", desc)
	if given == "" {
		s.Probe("server-sent-no-path")
		return
	}
	if p.Object == "dir-0700-owned-by-unmapped-uid" {
		if chownFailed {
			s.Probe("unmapped-uid-object-needs-root")
		} else if serr == nil {
			// accepted: then the recorded identity has to be the directory's owner, not somebody else
			me, _ := user.Current()
			if sn.User == me.Username || sn.User == "" {
				s.Violate("identity-not-directory-owner", p.Object, fmt.Sprintf("%s: the directory belongs to uid 54321, which has no account; the server accepted it and recorded %q", desc, sn.User))
				return
			}
			s.Probe("unmapped-owner-accepted-under-its-own-identity")
		} else {
			s.Probe("improper-object-refused")
		}
	} else if p.Object == "proper-0700-dir-other-group" && chownFailed {
		s.Probe("other-group-object-needs-root")
	} else if p.Object == "proper-0700-dir" || p.Object == "proper-0700-dir-other-group" {
		if serr != nil {
			s.Violate("proper-directory-refused", p.Object, desc)
			return
		}
		me, _ := user.Current()
		if sn.User != me.Username {
			s.Violate("identity-not-directory-owner", p.Object, fmt.Sprintf("%s: recorded user %q, directory owner %q", desc, sn.User, me.Username))
			return
		}
		s.Probe("proper-directory-accepted")
	} else if serr == nil {
		s.Violate("server-accepted-improper-object", p.Object, desc)
		return
	} else {
		s.Probe("improper-object-refused")
	}
	// the path is removed afterwards (a real directory or file the server had to judge); a symlink's target is untouched
	if p.Object != "nothing" {
		if _, err := os.Lstat(given); err == nil && p.Object != "dir-with-subdir" {
			s.Violate("server-left-object-behind", p.Object, desc)
			return
		}
	}
	if fi, err := os.Stat(target); err != nil || !fi.IsDir() {
		s.Violate("server-removed-symlink-target", p.Object, desc)
	}
	_ = syscall.Getuid()
}

// otherGid is a group id different from the running user's uid and primary gid.
func otherGid() int {
	for _, g := range []int{1, 2, 3, 100} {
		if g != os.Getuid() && g != os.Getgid() {
			return g
		}
	}
	return 1
}

func run(s *kernel.Sim, c *scen.Case) {
	var p params
	c.P(&p)
	hs.Init()
	if p.Kind == "server" {
		runServer(s, c, p)
		return
	}
	runClient(s, c, p)
}

func gen(g *scen.Gen) {
	seed := g.Seed * 982451653 % 1_000_000_007
	emit := func(p params) bool {
		seed++
		return g.Emit(scen.Case{Seed: seed, Params: scen.Params(p)})
	}
	npaths := len(paths(&env{token: "t", sandbox: "/var/tmp/c18_t", link: "/tmp/l", subdir: "/tmp/s"}, "10.0.0.2", "9618"))
	for i := 0; i < npaths; i++ {
		if !emit(params{Kind: "client", Path: i}) || !emit(params{Kind: "client", Path: i, V6: true}) {
			return
		}
	}
	// acceptable (and a few other) paths in a message that is not cleanly terminated
	for _, pi := range []int{0, 1, 2, 11, 13, 21} {
		for tr := 1; tr <= 2; tr++ {
			if !emit(params{Kind: "client", Path: pi, Trail: tr}) {
				return
			}
		}
	}
	for _, o := range objects {
		if !emit(params{Kind: "server", Object: o}) {
			return
		}
	}
	// connection faults at every I/O step of the client's FS exchange, for representative paths
	for _, pi := range []int{0, 1, 2, 11, 13, 21} {
		for k := 1; k <= 10; k++ {
			for _, f := range []string{"reset", "stall-cancel"} {
				if !emit(params{Kind: "client-fault", Path: pi, Fault: f, K: k}) {
					return
				}
			}
		}
	}
	// random mutations of accepted paths
	n := 4000
	if g.Quick() {
		n = 300
	}
	for i := 0; i < n; i++ {
		if !emit(params{Kind: "client", Path: npaths + i}) {
			return
		}
	}
}

var scenarios = []*scen.Scenario{{Name: "fs", Enumerated: true, Gen: gen, Run: run}}

func TestScenario(t *testing.T) { scen.Main(t, "C18", scenarios) }
