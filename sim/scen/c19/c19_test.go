// C19 — cancellation and deadlines always unblock stream operations. The
// endpoint under test runs a plain exchange or a handshake (either role, four
// shapes, and the connection-owning entry points) against an honest real peer;
// its k-th read or write is stalled for every k, and its context is cancelled
// or expires before, during and after; virtual time makes 30 s deadlines free.
package c19

import (
	"bytes"
	"context"
	"errors"
	"fmt"
	"net"
	"os"
	"regexp"
	"strings"
	"testing"
	"time"

	"cedarsim/hs"
	"cedarsim/kernel"
	"cedarsim/scen"
	"cedarsim/simnet"

	"github.com/bbockelm/cedar/client"
	"github.com/bbockelm/cedar/message"
	"github.com/bbockelm/cedar/security"
	"github.com/bbockelm/cedar/server"
	"github.com/bbockelm/cedar/stream"
	"github.com/bbockelm/cedar/verifhook"
)

type params struct {
	Shape string `json:"shape"` // plain | noauth | claimtobe | token | resumed
	Role  string `json:"role"`  // client | server | connect | serveconn | sender | receiver
	K     int    `json:"k"`     // 1-based I/O step of the endpoint under test that never completes (0: none)
	Mode  string `json:"mode"`  // background | never-cancelled | cancel-before | cancel-during | deadline-during | cancel-early | cancel-after
}

var lastOps int // number of I/O steps of the endpoint under test in the last baseline run

type outcome struct {
	err      error
	retAt    time.Time
	returned bool
}

func run(s *kernel.Sim, c *scen.Case) {
	var p params
	c.P(&p)
	hs.Init()
	defer func() { verifhook.DialFunc = nil }()
	t := s.T
	s.Quantum = 5 * time.Minute
	bg := context.Background()
	// a little latency so that time passes during the exchange
	ncfg := simnet.Config{MaxLatency: 40 * time.Millisecond, Segment: t.Choose("seg", 2) == 1, ShortReads: t.Choose("short", 2) == 1}
	if p.Shape == "fs" {
		// the server names its directory with os.MkdirTemp, whose decimal suffix (runtime randomness
		// no seed reaches) has 1-10 digits: with cuts drawn per byte count the rest of the run would
		// differ between two executions of one seed. Whole writes, whole reads: the same draws whatever the length.
		ncfg.Segment, ncfg.ShortReads = false, false
	}
	net0 := simnet.New(s, ncfg)
	tw := hs.NewTokenWorld(t)
	var methods []security.AuthMethod
	alevel := security.SecurityRequired
	switch p.Shape {
	case "noauth":
		alevel = security.SecurityNever
	case "claimtobe", "resumed", "negfail":
		methods = []security.AuthMethod{security.AuthClaimToBe}
	case "token":
		methods = []security.AuthMethod{security.AuthToken}
	case "fs":
		// filesystem authentication between two real endpoints, on the real /tmp
		methods = []security.AuthMethod{security.AuthFS}
	case "ssl":
		// SSL: TLS tunnelled in CEDAR messages, completion confirmations, session key
		methods = []security.AuthMethod{security.AuthSSL}
	}
	var sw *hs.SSLWorld
	if p.Shape == "ssl" {
		var err error
		if sw, err = hs.NewSSLWorld(); err != nil {
			s.Violate("harness", "ssl-world", err.Error())
			return
		}
		defer sw.Close()
	}
	cache := security.NewSessionCache()
	mkc := func() *security.SecurityConfig {
		cl := alevel
		if p.Shape == "negfail" {
			cl = security.SecurityNever // against a REQUIRED server: negotiation fails with an explicit denial
		}
		cfg := hs.Cfg(cl, security.SecurityRequired, methods, hs.AES, 60021)
		cfg.SessionCache = cache
		cfg.TrustDomain = tw.Issuer
		cfg.Token = tw.Token(hs.Now()-10, hs.Now()+3600)
		if sw != nil {
			sw.Client(cfg)
		}
		return cfg
	}
	mks := func() *security.SecurityConfig {
		cfg := hs.Cfg(alevel, security.SecurityRequired, methods, hs.AES, security.NoCommand)
		tw.ServerToken(cfg)
		if sw != nil {
			sw.Server(cfg)
		}
		return cfg
	}
	// context of the endpoint under test
	var ctx context.Context
	var cancel context.CancelFunc = func() {}
	var doneAt time.Time // when the context became done
	stallStarted := false
	var stallAt time.Time
	switch p.Mode {
	case "background":
		ctx = bg
	case "never-cancelled", "cancel-during", "cancel-early", "cancel-after":
		ctx, cancel = context.WithCancel(bg)
	case "cancel-before":
		ctx, cancel = context.WithCancel(bg)
		cancel()
		doneAt = time.Now()
	case "deadline-during":
		ctx, cancel = context.WithTimeout(bg, 30*time.Second)
		doneAt = time.Now().Add(30 * time.Second)
	}
	defer cancel()
	var ut *simnet.Endpoint // endpoint under test
	hook := func(ep *simnet.Endpoint) {
		ut = ep
		ep.OnOp = func(op simnet.Op) simnet.Action {
			if p.K > 0 && op.Index == p.K {
				stallStarted = true
				stallAt = time.Now()
				return simnet.Stall
			}
			return simnet.Proceed
		}
	}
	var out outcome
	var peerErr error
	finish := func(err error) {
		if s.Ended() {
			return // released by the simulator's teardown: the call never returned on its own
		}
		out.err, out.retAt, out.returned = err, time.Now(), true
	}
	payload := t.Bytes("payload", 3000)
	ownsConn := false

	startPair := func(n int, underTestIsClient bool) *hs.Pair {
		pr := hs.NewPair(net0, n)
		if underTestIsClient {
			hook(pr.CE)
		} else {
			hook(pr.SE)
		}
		return pr
	}

	establish := func() bool { // first, fault-free connection for the resumed shape
		pr := hs.NewPair(net0, 9)
		var e1, e2 error
		s.Go("est-client", func() {
			_, e1 = security.NewAuthenticator(mkc(), pr.CS).ClientHandshake(bg)
			pr.CE.Close()
		})
		s.Go("est-server", func() {
			_, e2 = security.NewAuthenticator(mks(), pr.SS).ServerHandshake(bg)
			pr.SE.Close()
		})
		s.Run()
		return e1 == nil && e2 == nil
	}

	switch {
	case strings.HasPrefix(p.Shape, "plain"):
		pr := startPair(1, p.Role == "sender")
		stU, stP := pr.CS, pr.SS
		if p.Role != "sender" {
			stU, stP = pr.SS, pr.CS
		}
		if p.Shape == "plain-timeout" {
			_ = stU.SetTimeout(10 * time.Minute)
		}
		if p.Shape == "plain-setconn" {
			// the stream started life on another connection and was moved onto this one (SetConnection,
			// as after a TLS upgrade): cancellation has to act on the connection in use
			pr0 := hs.NewPair(net0, 2)
			epU := pr.CE
			if p.Role != "sender" {
				epU = pr.SE
			}
			stU = stream.NewStream(pr0.CE)
			stU.SetConnection(epU)
		}
		if p.Role == "sender" {
			s.Go("under-test", func() {
				for i := 0; i < 3; i++ {
					if err := stU.SendMessage(ctx, payload); err != nil {
						finish(err)
						return
					}
				}
				m := message.NewMessageForStream(stU)
				if err := m.PutBytes(ctx, payload); err != nil {
					finish(err)
					return
				}
				finish(m.FinishMessage(ctx))
			})
			s.Go("peer", func() {
				for i := 0; i < 4; i++ {
					if _, peerErr = stP.ReceiveCompleteMessage(bg); peerErr != nil {
						return
					}
				}
			})
		} else {
			s.Go("under-test", func() {
				for i := 0; i < 2; i++ {
					if _, err := stU.ReceiveCompleteMessage(ctx); err != nil {
						finish(err)
						return
					}
				}
				if _, _, err := stU.ReadFrame(ctx); err != nil {
					finish(err)
					return
				}
				if _, err := stU.ReceiveFrame(ctx); err != nil { // the single-frame variant has its own read path
					finish(err)
					return
				}
				m := message.NewMessageFromStream(stU)
				_, err := m.GetBytes(ctx, len(payload))
				finish(err)
			})
			s.Go("peer", func() {
				for i := 0; i < 5; i++ {
					if peerErr = stP.SendMessage(bg, payload); peerErr != nil {
						return
					}
				}
			})
		}
	case p.Role == "client" || p.Role == "server":
		if p.Shape == "resumed" && !establish() {
			s.Violate("baseline-failed", "establish", "could not establish the session to resume")
			return
		}
		pr := startPair(1, p.Role == "client")
		if p.Shape == "fs" {
			// whatever directory the exchange names is removed when the case ends (a stalled
			// exchange abandons it); the path travels in clear from server to client
			defer func() {
				if m := fsPathRE.Find(pr.SE.SentBytes()); m != nil {
					_ = os.Remove(string(m))
				}
			}()
		}
		if p.Role == "client" {
			s.Go("under-test", func() {
				_, err := security.NewAuthenticator(mkc(), pr.CS).ClientHandshake(ctx)
				finish(err)
			})
			s.Go("peer", func() {
				_, peerErr = security.NewAuthenticator(mks(), pr.SS).ServerHandshake(bg)
			})
		} else {
			s.Go("under-test", func() {
				_, err := security.NewAuthenticator(mks(), pr.SS).ServerHandshake(ctx)
				finish(err)
			})
			s.Go("peer", func() {
				_, peerErr = security.NewAuthenticator(mkc(), pr.CS).ClientHandshake(bg)
			})
		}
	case p.Role == "connect" || p.Role == "connect-sp":
		ownsConn = true
		if p.Shape == "resumed" && !establish() {
			s.Violate("baseline-failed", "establish", "could not establish the session to resume")
			return
		}
		ln, _ := net0.Listen("10.0.0.2:9618")
		verifhook.DialFunc = func(dctx context.Context, network, addr string) (net.Conn, error) {
			if p.Role == "connect-sp" {
				// the shared-port path dials with net.DialTimeout, which does not look at the context:
				// a context that is already done still gets a connection, and the first write meets it
				dctx = bg
			}
			ep, err := net0.Dial(dctx, "10.0.0.1", addr)
			if err != nil {
				return nil, err
			}
			if ut == nil {
				hook(ep)
			}
			return ep, nil
		}
		s.Go("under-test", func() {
			address := "10.0.0.2:9618"
			if p.Role == "connect-sp" {
				// a daemon behind a shared-port endpoint: one more write (the SHARED_PORT_CONNECT request)
				// on the connection before the handshake, made by another layer of the client
				address = "<10.0.0.2:9618?sock=daemon_a>"
			}
			cl, err := client.ConnectAndAuthenticateWithConfig(ctx, &client.ClientConfig{Address: address, Security: mkc()})
			if err == nil && cl != nil {
				defer cl.Close()
			}
			finish(err)
		})
		s.Go("peer", func() {
			for {
				conn, err := ln.Accept()
				if err != nil {
					return
				}
				st := stream.NewStream(conn)
				if p.Role == "connect-sp" {
					// (the shared-port front reads the request on a stream of its own: the daemon's handshake starts afresh)
					m := message.NewMessageFromStream(stream.NewStream(conn))
					if _, err := m.GetInt32(bg); err != nil {
						continue
					}
					if _, err := m.GetString(bg); err != nil {
						continue
					}
				}
				_, peerErr = security.NewAuthenticator(mks(), st).ServerHandshake(bg)
			}
		})
		defer ln.Close()
	case p.Role == "serveconn":
		ownsConn = true
		if p.Shape == "resumed" && !establish() {
			s.Violate("baseline-failed", "establish", "could not establish the session to resume")
			return
		}
		pr := startPair(1, false)
		srv := server.New(mks())
		srv.Handle(60021, func(hctx context.Context, c *server.Conn) error {
			m := message.NewMessageFromStream(c.Stream)
			if _, err := m.GetBytes(hctx, 8); err != nil {
				return err
			}
			r := message.NewMessageForStream(c.Stream)
			if err := r.PutBytes(hctx, []byte("response")); err != nil {
				return err
			}
			return r.FinishMessage(hctx)
		})
		s.Go("under-test", func() { finish(srv.ServeConn(ctx, pr.SE)) })
		s.Go("peer", func() {
			_, peerErr = security.NewAuthenticator(mkc(), pr.CS).ClientHandshake(bg)
			if peerErr != nil {
				return
			}
			if peerErr = pr.CS.SendMessage(bg, []byte("request!")); peerErr != nil {
				return
			}
			_, peerErr = pr.CS.ReceiveCompleteMessage(bg)
		})
	}

	// cancellation drivers
	switch p.Mode {
	case "cancel-during":
		s.Go("canceller", func() {
			for !stallStarted && !out.returned && !s.Ended() {
				s.Sleep("cw", 20*time.Millisecond)
			}
			if !stallStarted {
				return
			}
			s.Sleep("cd", time.Second)
			doneAt = time.Now()
			cancel()
		})
	case "cancel-early":
		s.Go("canceller", func() {
			s.Sleep("ce", time.Duration(30+t.Choose("early", 300))*time.Millisecond)
			doneAt = time.Now()
			cancel()
		})
	}
	s.Run()
	if ut != nil {
		lastOps = ut.Ops()
	}
	for _, tk := range s.Tasks() {
		if tk.Panic != nil {
			s.Violate("panic", p.Shape+"/"+p.Role, fmt.Sprintf("task %s: %v\n%s", tk.Name, tk.Panic, tk.Stack))
			return
		}
	}
	if p.Mode == "cancel-after" && out.returned {
		cancel() // after completion: must not matter
	}
	sig := fmt.Sprintf("%s/%s/%s", p.Shape, p.Role, p.Mode)
	where := fmt.Sprintf("%s %s, stall at I/O step %d of %d, mode %s", p.Shape, p.Role, p.K, lastOps, p.Mode)
	s.Note("%s: returned=%v err=%v stallStarted=%v blocked=%v peerErr=%v", where, out.returned, out.err, stallStarted, s.BlockedAt, peerErr)
	ctxDone := ctx.Err() != nil
	stalled := p.K > 0 && stallStarted
	switch {
	case !stalled && (p.Mode == "background" || p.Mode == "never-cancelled" || p.Mode == "cancel-after"):
		// fault-free: a context that is never cancelled adds no failure mode
		if p.Shape == "negfail" {
			// the honest outcome of this shape is a denial
			if !out.returned || out.err == nil {
				s.Violate("fault-free-run-failed", sig, fmt.Sprintf("%s: incompatible policies must end in an error return: returned=%v err=%v", where, out.returned, out.err))
				return
			}
			s.Probe("fault-free-ok")
			break
		}
		if !out.returned || out.err != nil {
			s.Violate("fault-free-run-failed", sig, fmt.Sprintf("%s: returned=%v err=%v", where, out.returned, out.err))
			return
		}
		s.Probe("fault-free-ok")
	case stalled && (p.Mode == "background" || p.Mode == "never-cancelled" || p.Mode == "cancel-after"):
		// a stall with nothing to interrupt it simply blocks: expected
		if out.returned && out.err == nil {
			s.Probe("completed-despite-stall")
		} else {
			s.Probe("blocked-as-expected")
		}
	default:
		if !ctxDone {
			// e.g. cancel-during but the stalled step was never reached, or cancel-early lost the race with completion
			if out.returned {
				s.Probe("completed-before-cancellation")
			}
			return
		}
		if !out.returned {
			s.Violate("stranded-after-cancellation", sig, fmt.Sprintf("%s: the context was done at t=%v but the call never returned; still blocked at %v", where, doneAt.Sub(s.Start), s.BlockedAt))
			return
		}
		if out.err == nil {
			// cancellation raced with completion: acceptable only if nothing was pending
			if stalled && !doneAt.After(out.retAt) {
				s.Violate("success-despite-stall", sig, where)
			}
			s.Probe("completed-before-cancellation")
			return
		}
		lag := out.retAt.Sub(doneAt)
		if !doneAt.IsZero() && lag > time.Second {
			s.Violate("slow-return-after-cancellation", sig, fmt.Sprintf("%s: returned %v after the context was done", where, lag))
			return
		}
		if strings.HasPrefix(p.Shape, "plain") && !errors.Is(out.err, ctx.Err()) {
			s.Violate("wrong-error-after-cancellation", sig, fmt.Sprintf("%s: error %q is not the context's error %q", where, out.err, ctx.Err()))
			return
		}
		if ut != nil && stalled && p.Mode != "cancel-before" && ut.CloseCount == 0 {
			s.Violate("connection-left-open-after-cancellation", sig, fmt.Sprintf("%s: a blocked I/O was interrupted but the connection was never closed", where))
			return
		}
		s.Probe("cancelled-promptly")
	}
	if ownsConn && out.returned && out.err != nil && ut != nil && ut.CloseCount == 0 {
		s.Violate("owned-connection-left-open", sig, fmt.Sprintf("%s: entry point returned %v but left its connection open", where, out.err))
	}
	_ = bytes.Equal
	_ = stallAt
}

var fsPathRE = regexp.MustCompile(`/tmp/FS_[A-Za-z0-9_.]{1,80}`)

var combos = []struct{ shape, role string }{
	{"fs", "client"}, {"fs", "server"},
	{"ssl", "client"}, {"ssl", "server"},
	{"plain", "sender"}, {"plain", "receiver"},
	// the same with a socket timeout configured on the stream beforehand (SetTimeout arms real
	// deadlines on TCP sockets only; the context must stay in charge on every other connection)
	{"plain-timeout", "sender"}, {"plain-timeout", "receiver"},
	{"plain-setconn", "sender"}, {"plain-setconn", "receiver"},
	{"noauth", "client"}, {"noauth", "server"},
	{"claimtobe", "client"}, {"claimtobe", "server"},
	{"token", "client"}, {"token", "server"},
	{"resumed", "client"}, {"resumed", "server"},
	{"claimtobe", "connect"}, {"resumed", "connect"}, {"claimtobe", "connect-sp"}, {"noauth", "connect-sp"}, {"token", "serveconn"}, {"noauth", "serveconn"},
	{"negfail", "server"}, {"negfail", "client"}, {"negfail", "serveconn"}, {"negfail", "connect"},
}

func gen(g *scen.Gen) {
	seed := g.Seed * 49979687
	for _, cb := range combos {
		var n int
		for _, mode := range []string{"background", "never-cancelled", "cancel-after"} {
			seed++
			base := scen.Case{Seed: seed, Params: scen.Params(params{Shape: cb.shape, Role: cb.role, Mode: mode})}
			if mode == "background" {
				g.Probe(base)
				n = lastOps
			}
			if !g.Emit(base) {
				return
			}
		}
		for _, mode := range []string{"cancel-before", "cancel-early"} {
			seed++
			if !g.Emit(scen.Case{Seed: seed, Params: scen.Params(params{Shape: cb.shape, Role: cb.role, Mode: mode})}) {
				return
			}
		}
		for k := 1; k <= n+1; k++ {
			for _, mode := range []string{"cancel-during", "deadline-during", "cancel-early", "background", "cancel-before"} {
				seed++
				if !g.Emit(scen.Case{Seed: seed, Params: scen.Params(params{Shape: cb.shape, Role: cb.role, K: k, Mode: mode})}) {
					return
				}
			}
		}
	}
}

var scenarios = []*scen.Scenario{{Name: "stall-and-cancel", Enumerated: true, Gen: gen, Run: run}}

func TestScenario(t *testing.T) { scen.Main(t, "C19", scenarios) }
