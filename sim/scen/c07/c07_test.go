// C07 — a client reuses a cached session only for the same server, command and
// tag. Real client handshakes over (tag, address, command) triples against real
// servers on the simulated network, interleaved with server restarts, broken
// connections, expiry by virtual time and explicit invalidation; a reference map
// says which session, if any, a handshake may ride.
package c07

import (
	"context"
	"fmt"
	"net"
	"strings"
	"testing"
	"time"

	"cedarsim/hs"
	"cedarsim/kernel"
	"cedarsim/scen"
	"cedarsim/simnet"

	"github.com/bbockelm/cedar/client"
	"github.com/bbockelm/cedar/message"
	"github.com/bbockelm/cedar/security"
	"github.com/bbockelm/cedar/stream"
	"github.com/bbockelm/cedar/verifhook"
)

type params struct {
	Kind string `json:"kind"`
}

var tags = []string{"", "tagX", "tagY"}
var addrs = []string{"10.0.0.2:9618", "10.0.0.3:9618"}
var cmds = []int{60021, 60022, 60023}

// which commands each server declares valid for a session
var validAt = map[string][]int{"10.0.0.2:9618": {60021, 60022}, "10.0.0.3:9618": {60021, 60023},
	spAddrs[0]: {60021, 60022}, spAddrs[1]: {60021, 60023}}

// two daemons behind ONE shared-port endpoint: same host and port, told apart only by the
// sock= parameter of the address (reached through client.Connect's shared-port path)
const spFront = "10.0.0.4:9618"

var spAddrs = []string{"<10.0.0.4:9618?sock=daemon_a>", "<10.0.0.4:9618?sock=daemon_b>"}

const duration, lease = 600, 200 // seconds

type sess struct {
	id       string
	tag      string
	addrKey  string // the address string the client filed it under
	valid    map[int]bool
	created  time.Time
	lastUse  time.Time
	dropped  bool // invalidated, or a resumption of it failed
	restartN int  // server generation it was created in
	noExpiry bool // a claim session registered without a lifetime: time alone never kills it
}

func (x *sess) definitelyDead(now time.Time) bool {
	if x.noExpiry {
		return false
	}
	a, b := x.created.Add(duration*time.Second), x.lastUse.Add(lease*time.Second)
	if b.After(a) {
		a = b
	}
	return now.After(a.Add(time.Second))
}

func (x *sess) definitelyAlive(now time.Time) bool {
	if x.noExpiry {
		return true
	}
	a, b := x.created.Add(duration*time.Second), x.lastUse.Add(lease*time.Second)
	if b.Before(a) {
		a = b
	}
	return now.Before(a.Add(-time.Second))
}

func run(s *kernel.Sim, c *scen.Case) {
	hs.Init()
	defer func() { verifhook.DialFunc = nil }()
	t := s.T
	bg := context.Background()
	net0 := simnet.New(s, simnet.Config{MaxLatency: 5 * time.Millisecond})
	cache := security.NewSessionCache()
	serverGen := 0
	stop := false
	var resetAt int // fault for the next client connection: reset at this I/O step (0 none)
	attach := func(ep *simnet.Endpoint) {
		k := resetAt
		resetAt = 0
		if k > 0 {
			ep.OnOp = func(op simnet.Op) simnet.Action {
				if op.Index == k {
					return simnet.Reset
				}
				return simnet.Proceed
			}
		}
	}
	verifhook.DialFunc = func(ctx context.Context, network, addr string) (net.Conn, error) {
		ep, err := net0.Dial(ctx, "10.0.0.1", addr)
		if err != nil {
			return nil, err
		}
		attach(ep)
		return ep, nil
	}
	// servers
	resumesSeen := map[string]int{} // sid -> resumption requests the servers accepted
	stallNext := false              // the next accepted connection is served by a hung server
	for _, addr := range append(append([]string(nil), addrs...), spFront) {
		addr := addr
		ln, err := net0.Listen(addr)
		if err != nil {
			panic(err)
		}
		defer ln.Close()
		s.Go("srv:"+addr, func() {
			n := 0
			for !stop {
				conn, err := ln.Accept()
				if err != nil {
					return
				}
				n++
				s.Go(fmt.Sprintf("srvconn:%s:%d", addr, n), func() {
					defer conn.Close()
					if stallNext {
						// a hung server: it takes the request and never answers
						stallNext = false
						s.Fault("server-silent")
						buf := make([]byte, 4096)
						for {
							if _, err := conn.Read(buf); err != nil {
								return
							}
						}
					}
					daemon := addr
					if addr == spFront {
						// the shared-port front: read the SHARED_PORT_CONNECT request, then the
						// connection belongs to the named daemon
						m := message.NewMessageFromStream(stream.NewStream(conn))
						if _, err := m.GetInt32(bg); err != nil {
							return
						}
						id, err := m.GetString(bg)
						if err != nil {
							return
						}
						daemon = "<" + spFront + "?sock=" + id + ">"
					}
					cfg := hs.Cfg(security.SecurityRequired, security.SecurityRequired, []security.AuthMethod{security.AuthClaimToBe}, hs.AES, security.NoCommand)
					cfg.SessionDuration, cfg.SessionLease = duration, lease
					cfg.PostAuthPolicy = func(u, p string, a, e bool) (string, []int) { return "", validAt[daemon] }
					st := stream.NewStream(conn)
					a := security.NewAuthenticator(cfg, st)
					neg, err := a.ServerHandshake(bg)
					if err != nil {
						return
					}
					if neg.SessionResumed {
						resumesSeen[neg.SessionId]++
					}
					if m, err := st.ReceiveCompleteMessage(bg); err == nil {
						_ = st.SendMessage(bg, append([]byte("echo:"), m...))
					}
				})
			}
		})
	}
	model := map[string]*sess{}
	addrKey := func(addr string, via int) string {
		if via == 0 {
			return "<" + addr + ">"
		}
		return addr
	}
	probeRoutes := func(x *sess, why string) bool {
		id := x.id
		if e, ok := cache.Lookup(id); ok && e != nil {
			s.Violate("route-to-dead-session", "Lookup/"+why, fmt.Sprintf("session %s is %s but Lookup still returns it", id, why))
			return false
		}
		for _, tg := range tags {
			for _, ad := range append(append([]string(nil), addrs...), spFront, spAddrs[0], spAddrs[1]) {
				for _, form := range []string{ad, "<" + ad + ">"} {
					for _, cm := range cmds {
						if e, ok := cache.LookupByCommand(tg, form, fmt.Sprint(cm)); ok && e.ID() == id {
							s.Violate("route-to-dead-session", "LookupByCommand/"+why, fmt.Sprintf("session %s is %s but LookupByCommand(%q,%q,%d) still returns it", id, why, tg, form, cm))
							return false
						}
					}
				}
			}
		}
		if e, ok := cache.LookupNonExpired(id); ok && e != nil {
			s.Violate("route-to-dead-session", "LookupNonExpired/"+why, fmt.Sprintf("session %s is %s but LookupNonExpired still returns it", id, why))
			return false
		}
		return true
	}
	var lastFull *sess
	claimSeq := 0
	ok := true
	s.Go("driver", func() {
		defer func() { stop = true }()
		nsteps := 5 + t.Choose("nsteps", 8)
		for step := 0; step < nsteps && ok; step++ {
			op := t.Choose("op", 11)
			switch {
			case op <= 5: // handshake
				tag := kernel.Pick(t, "tag", tags...)
				addr := kernel.Pick(t, "addr", addrs...)
				cmd := kernel.Pick(t, "cmd", cmds...)
				via := t.Choose("via", 2)
				if via == 1 && t.Chance("shared-port", 1, 3) {
					addr = kernel.Pick(t, "spaddr", spAddrs...)
				}
				if t.Chance("break", 1, 6) {
					resetAt = 1 + t.Choose("break.k", 6)
					s.Fault("connection-reset-armed")
				}
				hctx, hcancel := bg, context.CancelFunc(func() {})
				if resetAt == 0 && t.Chance("silent-server", 1, 8) {
					// the server accepts and then says nothing; the caller's deadline ends the attempt
					stallNext = true
					hctx, hcancel = context.WithTimeout(bg, 20*time.Second)
				}
				broke := resetAt > 0 || stallNext
				cfg := hs.Cfg(security.SecurityRequired, security.SecurityRequired, []security.AuthMethod{security.AuthClaimToBe}, hs.AES, cmd)
				cfg.SessionCache = cache
				cfg.SecurityTag = tag
				var neg *security.SecurityNegotiation
				var err error
				var st *stream.Stream
				now := time.Now()
				preID, hadPre := "", false
				if e, found := cache.LookupByCommand(tag, addrKey(addr, via), fmt.Sprint(cmd)); found {
					preID, hadPre = e.ID(), true
				}
				if via == 0 {
					ep, derr := net0.Dial(bg, "10.0.0.1", addr)
					if derr != nil {
						err = derr
					} else {
						attach(ep)
						st = stream.NewStream(ep)
						a := security.NewAuthenticator(cfg, st)
						neg, err = a.ClientHandshake(hctx)
						if err != nil {
							ep.Close()
						}
					}
				} else {
					var cl *client.HTCondorClient
					cl, err = client.ConnectAndAuthenticateWithConfig(hctx, &client.ClientConfig{Address: addr, Security: cfg})
					if err == nil {
						neg = cl.GetSecurityNegotiation()
						st = cl.GetStream()
					}
				}
				hcancel()
				stallNext = false
				key := addrKey(addr, via)
				s.Note("step %d: handshake tag=%q addr=%s cmd=%d via=%d break=%v -> err=%v resumed=%v sid=%v", step, tag, key, cmd, via, broke, err, neg != nil && neg.SessionResumed, negSid(neg))
				// a resumption that was attempted and failed (server forgot the session, or the
				// exchange broke) must leave no route to that session
				if hadPre && (err != nil || !neg.SessionResumed || neg.SessionId != preID) {
					s.Probe("resumption-attempt-failed")
					if x := model[preID]; x != nil {
						x.dropped = true
						if !probeRoutes(x, "dropped after a failed resumption") {
							ok = false
						}
					} else if _, still := cache.Lookup(preID); still {
						s.Violate("route-to-dead-session", "Lookup/failed-resumption", fmt.Sprintf("resumption of %s failed but it is still cached", preID))
						ok = false
					}
				}
				if err != nil {
					continue
				}
				if neg.SessionResumed {
					s.Probe("resumed")
					x := model[neg.SessionId]
					switch {
					case x == nil:
						s.Violate("resumed-unknown-session", "unknown", fmt.Sprintf("handshake resumed session %s which the client never established", neg.SessionId))
						ok = false
					case x.tag != tag:
						s.Violate("resumed-across-tags", fmt.Sprintf("established-under-%q/used-under-%q", x.tag, tag), fmt.Sprintf("session %s was established under tag %q; a handshake with tag %q rode it", x.id, x.tag, tag))
						ok = false
					case x.addrKey != key:
						s.Violate("resumed-across-servers", "addr", fmt.Sprintf("session %s belongs to %s; used for %s", x.id, x.addrKey, key))
						ok = false
					case !x.valid[cmd]:
						s.Violate("resumed-for-undeclared-command", fmt.Sprint(cmd), fmt.Sprintf("session %s was declared valid for %v; used for %d", x.id, x.valid, cmd))
						ok = false
					case x.dropped:
						s.Violate("resumed-dropped-session", "dropped", fmt.Sprintf("session %s had been invalidated/dropped", x.id))
						ok = false
					case x.definitelyDead(now):
						s.Violate("resumed-expired-session", "expired", fmt.Sprintf("session %s was past both its duration and its lease", x.id))
						ok = false
					default:
						x.lastUse = now
						if x.noExpiry {
							s.Probe("resumed-claim-session")
						}
					}
				} else {
					s.Probe("full-handshake")
					// a full handshake although a session could definitely have been reused is allowed; count it
					for _, x := range model {
						if !x.dropped && x.tag == tag && x.addrKey == key && x.valid[cmd] && x.restartN == serverGen && x.definitelyAlive(now) && !broke {
							s.Probe("full-although-reusable")
						}
					}
					v := map[int]bool{}
					for _, part := range strings.Split(neg.ValidCommands, ",") {
						var n int
						if _, e := fmt.Sscan(strings.TrimSpace(part), &n); e == nil {
							v[n] = true
						}
					}
					lastFull = &sess{id: neg.SessionId, tag: tag, addrKey: key, valid: v, created: now, lastUse: now, restartN: serverGen}
					model[neg.SessionId] = lastFull
				}
				if st != nil {
					if st.SendMessage(bg, []byte("app")) == nil {
						_, _ = st.ReceiveCompleteMessage(bg)
					}
					st.Close()
				}
			case op == 10:
				// a session enters the client's cache without a handshake: a claim the client mints for a
				// peer (the server side imports the claim id), or a claim of the server's that the client
				// imports - filed under a tag, an address form and a set of commands like any other
				tag := kernel.Pick(t, "claim.tag", tags...)
				addr := kernel.Pick(t, "claim.addr", addrs...)
				form := kernel.Pick(t, "claim.form", "<"+addr+">", addr)
				valid := map[int]bool{}
				var vc []int
				for i, n := 0, 1+t.Choose("claim.ncmd", 2); i < n; i++ {
					cm := kernel.Pick(t, "claim.cmd", cmds...)
					if !valid[cm] {
						valid[cm] = true
						vc = append(vc, cm)
					}
				}
				claimSeq++
				var sid string
				var err error
				how := t.Choose("claim.how", 2)
				if how == 0 {
					var m *security.MintedClaim
					if m, err = security.MintClaimSession(cache, security.MintClaimOptions{Sinful: "<10.0.0.1:40000>", Birthdate: 1700000000, SequenceNum: claimSeq, PeerAddr: form, Tag: tag, ExtraValidCommands: vc}); err == nil {
						sid = m.SessionID()
						_, err = security.ImportClaimSession(security.GetSessionCache(), m.ClaimID(), security.ClaimSessionOptions{})
					}
				} else {
					var m *security.MintedClaim
					if m, err = security.MintClaimSession(security.GetSessionCache(), security.MintClaimOptions{Sinful: "<" + addr + ">", Birthdate: 1700000000, SequenceNum: claimSeq}); err == nil {
						sid, err = security.ImportClaimSession(cache, m.ClaimID(), security.ClaimSessionOptions{PeerAddr: form, Tag: tag, ExtraValidCommands: vc})
					}
				}
				s.Note("step %d: claim session how=%d tag=%q filed under %s for %v -> sid=%s err=%v", step, how, tag, form, vc, sid, err)
				if err != nil {
					s.Violate("claim-registration-failed", fmt.Sprintf("how=%d", how), fmt.Sprintf("minting and importing a claim session failed: %v", err))
					ok = false
					continue
				}
				s.Fault("claim-session-registered")
				now := time.Now()
				lastFull = &sess{id: sid, tag: tag, addrKey: form, valid: valid, created: now, lastUse: now, restartN: serverGen, noExpiry: true}
				model[sid] = lastFull
			case op == 6: // all servers restart and forget their sessions
				security.ClearSessionCache()
				serverGen++
				s.Fault("server-restart")
			case op == 7: // time passes
				d := kernel.Pick(t, "sleep", 50, 150, 250, 450, 700)
				s.Sleep("driver", time.Duration(d)*time.Second)
				now := time.Now()
				if t.Choose("sweep", 2) == 1 { // nothing in the library schedules the sweep: often it does not run
					cache.InvalidateExpired()
					s.Probe("expiry-sweep-ran")
				}
				for _, x := range model {
					if !x.dropped && x.definitelyDead(now) {
						x.dropped = true
						s.Probe("expired-by-time")
						if !probeRoutes(x, "expired") {
							ok = false
						}
						if ok && t.Chance("expired.refiled", 1, 3) {
							// something that names the expired session looks at it first (that is how expiry is noticed
							// between sweeps), perhaps a sweep runs, and then an entry with the same id is filed again
							// (claim session ids are a function of the claim: importing the claim again does this) -
							// under no route at all: none of the expired session's routes may lead to it
							touched := t.Chance("expired.touched", 1, 2)
							if touched {
								cache.LookupNonExpired(x.id)
							}
							swept := !touched || t.Chance("expired.swept", 1, 2)
							if swept {
								cache.InvalidateExpired()
							}
							// (an expired entry nothing has looked at yet is still in the cache with its routes;
							// filing over it is the caller replacing an entry, not an expiry: not judged)
							cache.Store(security.NewSessionEntry(x.id, "<10.9.9.9:1>", nil, nil, time.Now().Add(time.Hour), 0, "another-tag"))
							for _, tg := range tags {
								for _, ad := range append(append([]string(nil), addrs...), spAddrs[0], spAddrs[1]) {
									for _, form := range []string{ad, "<" + ad + ">"} {
										for _, cm := range cmds {
											if e, found := cache.LookupByCommand(tg, form, fmt.Sprint(cm)); found && e.ID() == x.id && ok {
												s.Violate("route-to-dead-session", fmt.Sprintf("LookupByCommand/refiled-after-expiry/touched=%v/swept=%v", touched, swept), fmt.Sprintf("session %s expired (noticed by a lookup: %v; sweep ran: %v); an entry with the same id filed again is reachable through the expired session's route (%q,%q,%d)", x.id, touched, swept, tg, form, cm))
												ok = false
											}
										}
									}
								}
							}
							cache.Invalidate(x.id)
							s.Probe("refiled-after-expiry-has-no-routes")
						}
					}
				}
			case op >= 8: // explicit invalidation of a known session
				if lastFull != nil && !lastFull.dropped {
					held, _ := cache.Lookup(lastFull.id) // what a resumption already in flight holds
					cache.Invalidate(lastFull.id)
					lastFull.dropped = true
					s.Probe("invalidated")
					if !probeRoutes(lastFull, "invalidated") {
						ok = false
					}
					if ok && held != nil && t.Chance("in-flight-restore", 1, 3) {
						// a resumption that was in flight when the session was invalidated completes and
						// files the entry again: it must come back without any of its old command routes
						cache.Store(held)
						for _, tg := range tags {
							for _, ad := range append(append([]string(nil), addrs...), spAddrs[0], spAddrs[1]) {
								for _, form := range []string{ad, "<" + ad + ">"} {
									for _, cm := range cmds {
										if e, found := cache.LookupByCommand(tg, form, fmt.Sprint(cm)); found && e.ID() == lastFull.id && ok {
											s.Violate("route-to-dead-session", "LookupByCommand/restored-after-invalidation", fmt.Sprintf("session %s was invalidated; an entry with the same id filed again is reachable through its old route (%q,%q,%d)", lastFull.id, tg, form, cm))
											ok = false
										}
									}
								}
							}
						}
						cache.Invalidate(lastFull.id)
						s.Probe("restored-after-invalidation-has-no-routes")
					}
				}
			}
		}
	})
	s.Run()
	for _, tk := range s.Tasks() {
		if tk.Panic != nil {
			s.Violate("panic", "c07", fmt.Sprintf("task %s: %v\n%s", tk.Name, tk.Panic, tk.Stack))
			return
		}
	}
}

func negSid(n *security.SecurityNegotiation) string {
	if n == nil {
		return "-"
	}
	return n.SessionId
}

// runBasic: fault-free — the same triple right after establishing resumes, a different tag does not.
func runBasic(s *kernel.Sim, c *scen.Case) {
	hs.Init()
	t := s.T
	bg := context.Background()
	net0 := simnet.New(s, simnet.Config{})
	cache := security.NewSessionCache()
	ln, _ := net0.Listen("10.0.0.2:9618")
	defer ln.Close()
	stop := false
	s.Go("srv", func() {
		for !stop {
			conn, err := ln.Accept()
			if err != nil {
				return
			}
			st := stream.NewStream(conn)
			cfg := hs.Cfg(security.SecurityRequired, security.SecurityRequired, []security.AuthMethod{security.AuthClaimToBe}, hs.AES, security.NoCommand)
			_, _ = security.NewAuthenticator(cfg, st).ServerHandshake(bg)
			conn.Close()
		}
	})
	tag := kernel.Pick(t, "tag", tags...)
	other := kernel.Pick(t, "other", tags...)
	var r1, r2, r3 *security.SecurityNegotiation
	var e1, e2, e3 error
	s.Go("driver", func() {
		defer func() { stop = true; ln.Close() }()
		do := func(tg string) (*security.SecurityNegotiation, error) {
			ep, err := net0.Dial(bg, "10.0.0.1", "10.0.0.2:9618")
			if err != nil {
				return nil, err
			}
			defer ep.Close()
			cfg := hs.Cfg(security.SecurityRequired, security.SecurityRequired, []security.AuthMethod{security.AuthClaimToBe}, hs.AES, 60021)
			cfg.SessionCache = cache
			cfg.SecurityTag = tg
			return security.NewAuthenticator(cfg, stream.NewStream(ep)).ClientHandshake(bg)
		}
		r1, e1 = do(tag)
		r2, e2 = do(tag)
		r3, e3 = do(other)
	})
	s.Run()
	if e1 != nil || e2 != nil || e3 != nil {
		s.Violate("basic-handshake-failed", "basic", fmt.Sprintf("%v %v %v", e1, e2, e3))
		return
	}
	if r1.SessionResumed {
		s.Violate("first-handshake-resumed", "basic", "")
	}
	if !r2.SessionResumed || r2.SessionId != r1.SessionId {
		s.Violate("same-triple-not-resumed", fmt.Sprintf("tag=%q", tag), fmt.Sprintf("second handshake under the same (tag %q, server, command) performed a full handshake (sid %s vs %s)", tag, r2.SessionId, r1.SessionId))
		return
	}
	if other != tag && r3.SessionResumed && r3.SessionId == r1.SessionId {
		s.Violate("resumed-across-tags", fmt.Sprintf("established-under-%q/used-under-%q", tag, other), fmt.Sprintf("session established under tag %q was ridden by a handshake with tag %q", tag, other))
	}
	s.Probe("basic-ok")
}

var scenarios = []*scen.Scenario{
	{Name: "basic", Enumerated: true, Gen: func(g *scen.Gen) {
		for i := uint64(0); i < 27; i++ {
			if !g.Emit(scen.Case{Seed: g.Seed*9973 + i, Params: scen.Params(params{Kind: "basic"})}) {
				return
			}
		}
	}, Run: runBasic},
	{Name: "history", Gen: func(g *scen.Gen) {
		for i := uint64(0); ; i++ {
			if !g.Emit(scen.Case{Seed: g.Seed*1_000_003 + i, Params: scen.Params(params{Kind: "history"})}) {
				return
			}
		}
	}, Run: run},
}

func TestScenario(t *testing.T) { scen.Main(t, "C07", scenarios) }
