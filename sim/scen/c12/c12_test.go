// C12 — protected frames follow the AES-GCM wire format; no nonce is ever
// reused. An independent codec (refcodec) opens every frame the real streams
// emit, builds frames the real receiver must accept, and watches the nonce set;
// counters are started near 2^32 through imported session state.
package c12

import (
	"bytes"
	"context"
	"encoding/binary"
	"errors"
	"fmt"
	"testing"
	"time"

	"cedarsim/kernel"
	"cedarsim/refcodec"
	"cedarsim/scen"
	"cedarsim/simnet"

	"github.com/bbockelm/cedar/message"
	"github.com/bbockelm/cedar/stream"
)

type params struct {
	Kind string `json:"kind"` // history | ref-sender | wrap
	Off  int    `json:"off,omitempty"`
}

// op is one send call of a direction and how it must look on the wire.
type op struct {
	kind      string   // "msg" (1 frame), "frames" (explicit partial frames), "typed" (Message layer), "secret", "clear" (post-key cleartext)
	frames    [][]byte // plaintext per frame for msg/frames/secret/clear
	typed     []byte   // typed: bytes put with PutBytes
	protected bool
}

func (o *op) plaintext() []byte {
	if o.kind == "typed" {
		return o.typed
	}
	var b []byte
	for _, f := range o.frames {
		b = append(b, f...)
	}
	return b
}

func drawOps(t *kernel.Tape, dir byte, secretsMode bool, allowBig bool) []*op {
	n := t.Choose("nops", 7)
	var ops []*op
	for i := 0; i < n; i++ {
		mk := func(n int) []byte {
			b := t.Bytes("pl", n)
			if n > 0 {
				b[0] = dir + byte(i)
			}
			return b
		}
		size := func() int { return kernel.Pick(t, "sz", 0, 1, 15, 16, 17, 100, 4096, 16384, 65536) }
		if secretsMode {
			if t.Choose("sec", 2) == 0 {
				s := mk(1 + t.Choose("secn", 40))
				for j := range s {
					if s[j] == 0 {
						s[j] = 'z'
					}
				}
				ops = append(ops, &op{kind: "secret", frames: [][]byte{s}, protected: true})
			} else {
				ops = append(ops, &op{kind: "clear", frames: [][]byte{mk(size())}})
			}
			continue
		}
		switch t.Choose("opkind", 4) {
		case 3:
			// a secret on a stream that is already encrypting: the toggle must leave it encrypting
			sv := mk(1 + t.Choose("secn", 40))
			for j := range sv {
				if sv[j] == 0 {
					sv[j] = 'z'
				}
			}
			ops = append(ops, &op{kind: "secret", frames: [][]byte{sv}, protected: true})
		case 0:
			ops = append(ops, &op{kind: "msg", frames: [][]byte{mk(size())}, protected: true})
		case 1:
			k := 2 + t.Choose("nfr", 3)
			var fr [][]byte
			for j := 0; j < k; j++ {
				fr = append(fr, mk(kernel.Pick(t, "fsz", 0, 1, 16, 300)))
			}
			ops = append(ops, &op{kind: "frames", frames: fr, protected: true})
		case 2:
			n := kernel.Pick(t, "tsz", 10, 16384, 16385, 40000)
			if allowBig && t.Chance("tbig", 1, 8) {
				n = 1<<20 + 5
			}
			ops = append(ops, &op{kind: "typed", typed: mk(n), protected: true})
		}
	}
	return ops
}

func sendOp(ctx context.Context, st *stream.Stream, o *op) error {
	switch o.kind {
	case "msg", "clear":
		return st.SendMessage(ctx, o.frames[0])
	case "frames":
		for i, f := range o.frames {
			var err error
			if i == len(o.frames)-1 {
				err = st.SendMessage(ctx, f)
			} else {
				err = st.SendPartialMessage(ctx, f)
			}
			if err != nil {
				return err
			}
		}
		return nil
	case "typed":
		m := message.NewMessageForStream(st)
		if err := m.PutBytes(ctx, o.typed); err != nil {
			return err
		}
		return m.FinishMessage(ctx)
	case "secret":
		return st.PutSecret(ctx, string(o.frames[0]))
	}
	return nil
}

func recvOp(ctx context.Context, st *stream.Stream, o *op) ([]byte, error) {
	if o.kind == "secret" {
		s, err := st.GetSecret(ctx)
		return []byte(s), err
	}
	return st.ReceiveCompleteMessage(ctx)
}

// checkDirection opens every frame of one direction with the reference codec.
// clear: number of leading cleartext frames (sent before the key was installed).
func checkDirection(s *kernel.Sim, name string, wire []byte, nclear int, ops []*op, sent int, key []byte, firstAAD []byte) (iv [16]byte, haveIV bool) {
	frames, rest := refcodec.ParseFrames(wire)
	if len(rest) != 0 {
		// an interrupted final write is fine; anything else is a framing problem
		s.Probe("trailing-partial-frame")
	}
	if len(frames) < nclear {
		return
	}
	frames = frames[nclear:]
	dir, err := refcodec.NewGCMDir(key, firstAAD)
	if err != nil {
		panic(err)
	}
	fi := 0
	nprot := 0
	for oi := 0; oi < sent && oi < len(ops); oi++ {
		o := ops[oi]
		var got []byte
		for {
			if fi >= len(frames) {
				s.Violate("frame-missing", name+"/"+o.kind, fmt.Sprintf("%s op %d (%s): expected more frames on the wire", name, oi, o.kind))
				return
			}
			f := frames[fi]
			fi++
			if o.protected {
				pt, err := dir.Open(f)
				if errors.Is(err, refcodec.ErrNonceReuse) {
					s.Violate("nonce-reuse", name, fmt.Sprintf("%s: frame %d reuses a nonce already used under this key and direction", name, fi-1))
					return
				}
				if err != nil {
					s.Violate("frame-does-not-open", name+"/"+o.kind+fmt.Sprintf("/first=%v", nprot == 0), fmt.Sprintf("%s op %d (%s) protected frame #%d: %v", name, oi, o.kind, nprot, err))
					return
				}
				nprot++
				got = append(got, pt...)
			} else {
				got = append(got, f.Payload...)
			}
			if f.End != 0 {
				break
			}
		}
		want := o.plaintext()
		if o.kind == "secret" {
			want = append(append([]byte(nil), want...), 0)
		}
		if !bytes.Equal(got, want) {
			s.Violate("wire-plaintext-differs", name+"/"+o.kind, fmt.Sprintf("%s op %d (%s): reference decryption gives %d bytes, sender sent %d", name, oi, o.kind, len(got), len(want)))
			return
		}
	}
	s.Probe("direction-opened-by-reference")
	if nprot > 0 {
		s.Probe("protected-frames-checked")
	}
	return dir.BaseIV, dir.HaveIV
}

func runHistory(s *kernel.Sim, c *scen.Case) {
	t := s.T
	ctx := context.Background()
	net := simnet.New(s, simnet.DrawConfig(t))
	a, b := net.Pipe("A", "B", "10.0.0.1:1000", "10.0.0.2:9618")
	a.Tap()
	b.Tap()
	sa, sb := stream.NewStream(a), stream.NewStream(b)
	key := t.Bytes("key", 32)
	// cleartext prefix of every shape, including none
	nPreA, nPreB := t.Choose("preA", 3), t.Choose("preB", 3)
	secrets := t.Chance("secrets-mode", 1, 4)
	if secrets {
		s.Probe("secrets-mode")
	}
	big := t.Chance("big", 1, 10)
	opsA := drawOps(t, 0x20, secrets, big)
	opsB := drawOps(t, 0x90, secrets, big)
	// cleartext prefix frames may be empty (only their headers feed the digest)
	emptyPre := map[byte][]bool{'A': {t.Chance("preA0-empty", 1, 3), t.Chance("preA1-empty", 1, 3)}, 'B': {t.Chance("preB0-empty", 1, 3), t.Chance("preB1-empty", 1, 3)}}
	pre := func(d byte, i int) []byte {
		if emptyPre[d][i] {
			s.Probe("empty-cleartext-prefix-frame")
			return nil
		}
		return []byte(fmt.Sprintf("clear-%c-%d-%s", d, i, string(make([]byte, i*7))))
	}
	sentA, sentB := 0, 0
	var errs []string
	fail := func(f string, x ...any) { errs = append(errs, fmt.Sprintf(f, x...)) }
	setup := func(st *stream.Stream, mine, theirs int, me byte, first bool) bool {
		sendPre := func() bool {
			for i := 0; i < mine; i++ {
				if err := st.SendMessage(ctx, pre(me, i)); err != nil {
					fail("prefix send: %v", err)
					return false
				}
			}
			return true
		}
		recvPre := func() bool {
			for i := 0; i < theirs; i++ {
				if _, err := st.ReceiveCompleteMessage(ctx); err != nil {
					fail("prefix recv: %v", err)
					return false
				}
			}
			return true
		}
		if first {
			if !sendPre() || !recvPre() {
				return false
			}
		} else {
			if !recvPre() || !sendPre() {
				return false
			}
		}
		if err := st.SetSymmetricKey(key); err != nil {
			panic(err)
		}
		if secrets {
			st.SetCryptoMode(false)
		}
		return true
	}
	sender := func(st *stream.Stream, ops []*op, cnt *int, who string) {
		for _, o := range ops {
			if err := sendOp(ctx, st, o); err != nil {
				if !errors.Is(err, simnet.ErrSimEnded) {
					fail("%s send %s: %v", who, o.kind, err)
				}
				return
			}
			*cnt++
		}
	}
	receiver := func(st *stream.Stream, ops []*op, who string) {
		for i, o := range ops {
			got, err := recvOp(ctx, st, o)
			if err != nil {
				if !errors.Is(err, simnet.ErrSimEnded) {
					fail("%s recv op %d (%s): %v", who, i, o.kind, err)
				}
				return
			}
			if !bytes.Equal(got, o.plaintext()) {
				fail("%s recv op %d (%s): payload differs", who, i, o.kind)
				return
			}
		}
	}
	s.Go("A", func() {
		if !setup(sa, nPreA, nPreB, 'A', true) {
			return
		}
		if secrets { // half duplex: the secret toggle is per stream, not per direction
			sender(sa, opsA, &sentA, "A")
			receiver(sa, opsB, "A")
			return
		}
		s.Go("A.recv", func() { receiver(sa, opsB, "A") })
		sender(sa, opsA, &sentA, "A")
	})
	s.Go("B", func() {
		if !setup(sb, nPreB, nPreA, 'B', false) {
			return
		}
		if secrets {
			receiver(sb, opsA, "B")
			sender(sb, opsB, &sentB, "B")
			return
		}
		s.Go("B.recv", func() { receiver(sb, opsA, "B") })
		sender(sb, opsB, &sentB, "B")
	})
	s.Run()
	defer func() { a.CloseQuiet(); b.CloseQuiet() }()
	for _, tk := range s.Tasks() {
		if tk.Panic != nil {
			s.Violate("panic", "history", fmt.Sprintf("task %s: %v\n%s", tk.Name, tk.Panic, tk.Stack))
			return
		}
	}
	if len(errs) > 0 {
		// cedar-to-cedar traffic failing is not this property's subject, but it would hide coverage: fail loudly
		s.Violate("real-pair-exchange-failed", fmt.Sprintf("secrets=%v", secrets), fmt.Sprintf("%v", errs))
		return
	}
	// digests of the cleartext prefixes
	dA, dB := refcodec.NewDigest(), refcodec.NewDigest()
	fa, _ := refcodec.ParseFrames(a.SentBytes())
	fb, _ := refcodec.ParseFrames(b.SentBytes())
	for i := 0; i < nPreA && i < len(fa); i++ {
		dA.Add(fa[i].Raw)
	}
	for i := 0; i < nPreB && i < len(fb); i++ {
		dB.Add(fb[i].Raw)
	}
	aadAB := append(append([]byte(nil), dA.Final()...), dB.Final()...)
	aadBA := append(append([]byte(nil), dB.Final()...), dA.Final()...)
	if nPreA == 0 || nPreB == 0 {
		s.Probe("zero-digest-direction")
	}
	ivA, okA := checkDirection(s, "A->B", a.SentBytes(), nPreA, opsA, sentA, key, aadAB)
	ivB, okB := checkDirection(s, "B->A", b.SentBytes(), nPreB, opsB, sentB, key, aadBA)
	if okA && okB && ivA == ivB {
		s.Violate("base-iv-not-distinct", "directions", fmt.Sprintf("both directions use base IV %x", ivA))
	}
}

// runRekey: a key is installed again on a live stream pair (the same key, or another one)
// after some protected traffic. Whatever the implementation does with its IV and counters,
// no two frames may be encrypted with the same key stream: for known plaintexts p1, p2 a
// repeated (key, nonce) shows as c1 xor c2 == p1 xor p2, which is checked directly on the
// wire bytes for every pair of frames under the same key - independent of the frame format.
func runRekey(s *kernel.Sim, c *scen.Case) {
	t := s.T
	ctx := context.Background()
	net := simnet.New(s, simnet.DrawConfig(t))
	a, b := net.Pipe("A", "B", "10.0.0.1:1000", "10.0.0.2:9618")
	a.Tap()
	sa, sb := stream.NewStream(a), stream.NewStream(b)
	key1 := t.Bytes("key1", 32)
	key2 := key1
	same := t.Chance("same-key", 2, 3)
	if !same {
		key2 = t.Bytes("key2", 32)
	}
	epochs := 2 + t.Choose("epochs", 2)
	per := 1 + t.Choose("per-epoch", 3)
	type sentFrame struct {
		key   []byte
		plain []byte
	}
	var plan []sentFrame
	var errs []string
	keyOf := func(e int) []byte {
		if e%2 == 0 {
			return key1
		}
		return key2
	}
	for e := 0; e < epochs; e++ {
		for i := 0; i < per; i++ {
			plan = append(plan, sentFrame{key: keyOf(e), plain: t.Bytes("plain", 48+t.Choose("len", 200))})
		}
	}
	barrier := 0 // messages fully received so far (the receiver re-installs the key in step)
	s.Go("A", func() {
		k := 0
		for e := 0; e < epochs; e++ {
			for barrier < k && !s.Ended() { // wait until B has read the previous epoch
				s.Sleep("A", time.Millisecond)
			}
			if err := sa.SetSymmetricKey(keyOf(e)); err != nil {
				errs = append(errs, err.Error())
				return
			}
			for i := 0; i < per; i++ {
				if err := sa.SendMessage(ctx, plan[k].plain); err != nil {
					if !errors.Is(err, simnet.ErrSimEnded) {
						errs = append(errs, fmt.Sprintf("send %d: %v", k, err))
					}
					return
				}
				k++
			}
		}
	})
	s.Go("B", func() {
		k := 0
		for e := 0; e < epochs; e++ {
			if err := sb.SetSymmetricKey(keyOf(e)); err != nil {
				errs = append(errs, err.Error())
				return
			}
			for i := 0; i < per; i++ {
				got, err := sb.ReceiveCompleteMessage(ctx)
				if err != nil {
					if !errors.Is(err, simnet.ErrSimEnded) {
						errs = append(errs, fmt.Sprintf("recv %d: %v", k, err))
					}
					return
				}
				if !bytes.Equal(got, plan[k].plain) {
					errs = append(errs, fmt.Sprintf("recv %d: payload differs", k))
					return
				}
				k++
				barrier = k
			}
		}
	})
	s.Run()
	defer func() { a.CloseQuiet(); b.CloseQuiet() }()
	for _, tk := range s.Tasks() {
		if tk.Panic != nil {
			s.Violate("panic", "rekey", fmt.Sprintf("task %s: %v\n%s", tk.Name, tk.Panic, tk.Stack))
			return
		}
	}
	if len(errs) > 0 {
		// installing a key again on a live pair is not promised to work; it must only never reuse a nonce
		s.Probe("rekey-exchange-did-not-complete")
	} else {
		s.Probe("rekey-exchange-completed")
	}
	frames, _ := refcodec.ParseFrames(a.SentBytes())
	if len(frames) > len(plan) {
		frames = frames[:len(plan)]
	}
	xorMatch := func(c1, c2, p1, p2 []byte) bool {
		n := len(c1)
		for _, l := range []int{len(c2), len(p1), len(p2)} {
			if l < n {
				n = l
			}
		}
		if n < 32 {
			return false
		}
		for i := 0; i < n; i++ {
			if c1[i]^c2[i] != p1[i]^p2[i] {
				return false
			}
		}
		return true
	}
	for i := 0; i < len(frames); i++ {
		for j := i + 1; j < len(frames); j++ {
			if !bytes.Equal(plan[i].key, plan[j].key) {
				continue
			}
			// a frame that carries an IV has it in front of the ciphertext: try both alignments
			for _, oi := range []int{0, 16} {
				for _, oj := range []int{0, 16} {
					if len(frames[i].Payload) > oi+32 && len(frames[j].Payload) > oj+32 &&
						xorMatch(frames[i].Payload[oi:], frames[j].Payload[oj:], plan[i].plain, plan[j].plain) {
						s.Violate("nonce-reuse", fmt.Sprintf("rekey/same-key=%v", same), fmt.Sprintf("frames %d and %d of one direction were encrypted under the same key with the same key stream (c1 xor c2 == p1 xor p2 over >= 32 bytes): the key was installed again after frame %d and the nonce sequence restarted", i, j, (j/per)*per-1))
						return
					}
				}
			}
		}
	}
	s.Probe("rekey-no-keystream-reuse")
}

// runWriteError: a protected frame's write fails with a timeout after part of it has left
// (a write deadline on a full socket buffer); the connection stays usable and the sender
// sends on. Whatever the stream does with its counters, the bytes that went out for the
// failed frame and the following frame must not share a key stream.
func runWriteError(s *kernel.Sim, c *scen.Case) {
	t := s.T
	ctx := context.Background()
	net := simnet.New(s, simnet.Config{})
	a, b := net.Pipe("A", "B", "10.0.0.1:1000", "10.0.0.2:9618")
	a.Tap()
	sa, sb := stream.NewStream(a), stream.NewStream(b)
	key := t.Bytes("key", 32)
	_ = sa.SetSymmetricKey(key)
	_ = sb.SetSymmetricKey(key)
	nBefore := t.Choose("before", 3) // 0: the failed frame is the first protected one (carries the IV)
	failAt := 0
	writes := 0
	a.OnOp = func(op simnet.Op) simnet.Action {
		if op.Kind == 'W' {
			writes++
			if writes == failAt {
				return simnet.Timeout
			}
		}
		return simnet.Proceed
	}
	var plains [][]byte
	mk := func() []byte {
		p := t.Bytes("plain", 120+t.Choose("len", 200))
		plains = append(plains, p)
		return p
	}
	var sendErr error
	s.Go("A", func() {
		for i := 0; i < nBefore; i++ {
			if err := sa.SendMessage(ctx, mk()); err != nil {
				return
			}
		}
		failAt = writes + 1
		sendErr = sa.SendMessage(ctx, mk()) // this write times out half-way
		_ = sa.SendMessage(ctx, mk())       // the sender carries on with a fresh message
		_ = sa.SendMessage(ctx, mk())
		a.Close()
	})
	s.Go("B", func() {
		for {
			if _, err := sb.ReceiveCompleteMessage(ctx); err != nil {
				return
			}
		}
	})
	s.Run()
	defer func() { a.CloseQuiet(); b.CloseQuiet() }()
	for _, tk := range s.Tasks() {
		if tk.Panic != nil {
			s.Violate("panic", "write-error", fmt.Sprintf("task %s: %v\n%s", tk.Name, tk.Panic, tk.Stack))
			return
		}
	}
	if sendErr == nil {
		s.Probe("write-timeout-not-reached")
		return
	}
	// cut the wire bytes back into what each send put out: whole frames, the half frame, the rest
	wire := a.SentBytes()
	var pieces [][]byte // ciphertext-bearing bytes of each attempted frame, header stripped
	off := 0
	for i := range plains {
		if off+5 > len(wire) {
			break
		}
		if i == nBefore {
			// the failed frame: its announced length says how long it would have been; half of it left
			full := 5 + int(wire[off+1])<<24 | int(wire[off+2])<<16 | int(wire[off+3])<<8 | int(wire[off+4])
			full = 5 + (int(wire[off+1])<<24 | int(wire[off+2])<<16 | int(wire[off+3])<<8 | int(wire[off+4]))
			k := full / 2
			if off+k > len(wire) {
				k = len(wire) - off
			}
			pieces = append(pieces, wire[off+5:off+k])
			off += k
			continue
		}
		n := int(wire[off+1])<<24 | int(wire[off+2])<<16 | int(wire[off+3])<<8 | int(wire[off+4])
		if off+5+n > len(wire) {
			break
		}
		pieces = append(pieces, wire[off+5:off+5+n])
		off += 5 + n
	}
	xorMatch := func(c1, c2, p1, p2 []byte) bool {
		n := len(c1)
		for _, l := range []int{len(c2), len(p1), len(p2)} {
			if l < n {
				n = l
			}
		}
		if n < 32 {
			return false
		}
		for i := 0; i < n; i++ {
			if c1[i]^c2[i] != p1[i]^p2[i] {
				return false
			}
		}
		return true
	}
	for i := 0; i < len(pieces); i++ {
		for j := i + 1; j < len(pieces); j++ {
			for _, oi := range []int{0, 16} {
				for _, oj := range []int{0, 16} {
					if len(pieces[i]) > oi+32 && len(pieces[j]) > oj+32 && xorMatch(pieces[i][oi:], pieces[j][oj:], plains[i], plains[j]) {
						s.Violate("nonce-reuse", "after-failed-write", fmt.Sprintf("frame %d (its write failed with a timeout after half of it had left) and frame %d share a key stream: c1 xor c2 == p1 xor p2 over >= 32 bytes", i, j))
						return
					}
				}
			}
		}
	}
	s.Probe("no-keystream-reuse-after-failed-write")
}

// runRefSender: frames built by the reference codec are fed to the real receiver.
func runRefSender(s *kernel.Sim, c *scen.Case) {
	t := s.T
	ctx := context.Background()
	net := simnet.New(s, simnet.DrawConfig(t))
	a, b := net.Pipe("REF", "B", "10.0.0.1:1000", "10.0.0.2:9618")
	b.Tap()
	sb := stream.NewStream(b)
	key := t.Bytes("key", 32)
	nPreRef, nPreB := t.Choose("preRef", 3), t.Choose("preB", 3)
	dRef, dB := refcodec.NewDigest(), refcodec.NewDigest()
	var plan [][]byte // plaintext messages the reference will send (one or more frames each)
	nm := 1 + t.Choose("nmsg", 5)
	for i := 0; i < nm; i++ {
		plan = append(plan, t.Bytes("pl", kernel.Pick(t, "sz", 0, 1, 16, 17, 1000, 20000)))
	}
	var got [][]byte
	var rerr error
	var bOps []*op
	for i := 0; i < 1+t.Choose("nb", 3); i++ {
		bOps = append(bOps, &op{kind: "msg", frames: [][]byte{t.Bytes("bpl", kernel.Pick(t, "bsz", 0, 5, 64))}, protected: true})
	}
	bSent := 0
	emptyRef, emptyB := t.Chance("ref-empty-prefix", 1, 3), t.Chance("b-empty-prefix", 1, 3)
	s.Go("REF", func() {
		// cleartext prefix
		for i := 0; i < nPreRef; i++ {
			rp := []byte(fmt.Sprintf("ref-clear-%d", i))
			if emptyRef {
				rp = nil
			}
			raw := refcodec.MakeFrame(1, rp)
			dRef.Add(raw)
			if _, err := a.Write(raw); err != nil {
				return
			}
		}
		buf := make([]byte, 1<<16)
		var acc []byte
		need := nPreB
		for need > 0 {
			n, err := a.Read(buf)
			if err != nil {
				return
			}
			acc = append(acc, buf[:n]...)
			fr, _ := refcodec.ParseFrames(acc)
			if len(fr) >= nPreB {
				for i := 0; i < nPreB; i++ {
					dB.Add(fr[i].Raw)
				}
				need = 0
			}
		}
		dir, _ := refcodec.NewGCMDir(key, append(append([]byte(nil), dRef.Final()...), dB.Final()...))
		var iv [16]byte
		copy(iv[:], t.Bytes("iv", 16))
		if t.Chance("iv-high", 1, 3) {
			// base word close to 2^32 so that base+counter wraps inside the word
			binary.BigEndian.PutUint32(iv[:4], 0xfffffffe)
			s.Probe("iv-word-wraps")
		}
		for _, m := range plan {
			// cut into 1-3 frames
			k := 1 + t.Choose("cut", 3)
			for j := 0; j < k; j++ {
				lo, hi := len(m)*j/k, len(m)*(j+1)/k
				end := byte(0)
				if j == k-1 {
					end = 1
				}
				if _, err := a.Write(dir.Seal(end, m[lo:hi], iv)); err != nil {
					return
				}
			}
		}
	})
	s.Go("B", func() {
		for i := 0; i < nPreRef; i++ {
			if _, err := sb.ReceiveCompleteMessage(ctx); err != nil {
				rerr = err
				return
			}
		}
		for i := 0; i < nPreB; i++ {
			bp := []byte(fmt.Sprintf("b-clear-%d", i))
			if emptyB {
				bp = nil
			}
			if err := sb.SendMessage(ctx, bp); err != nil {
				rerr = err
				return
			}
		}
		if err := sb.SetSymmetricKey(key); err != nil {
			panic(err)
		}
		for range plan {
			m, err := sb.ReceiveCompleteMessage(ctx)
			if err != nil {
				rerr = err
				return
			}
			got = append(got, m)
		}
		for _, o := range bOps {
			if err := sendOp(ctx, sb, o); err != nil {
				return
			}
			bSent++
		}
	})
	s.Run()
	defer func() { a.CloseQuiet(); b.CloseQuiet() }()
	if rerr != nil && !errors.Is(rerr, simnet.ErrSimEnded) {
		s.Violate("reference-frame-rejected", fmt.Sprintf("preRef=%d/preB=%d", min(nPreRef, 1), min(nPreB, 1)), fmt.Sprintf("real receiver rejected a frame built by the reference codec (after %d messages): %v", len(got), rerr))
		return
	}
	for i, m := range got {
		if !bytes.Equal(m, plan[i]) {
			s.Violate("reference-frame-misread", "payload", fmt.Sprintf("message %d differs", i))
			return
		}
	}
	if len(got) == len(plan) {
		s.Probe("reference-frames-accepted")
	}
	// and the real side's replies open under the mirrored AAD
	aadBA := append(append([]byte(nil), dB.Final()...), dRef.Final()...)
	checkDirection(s, "B->REF", b.SentBytes(), nPreB, bOps, bSent, key, aadBA)
}

// runWrap: counters started near 2^32 through an imported session blob.
func runWrap(s *kernel.Sim, c *scen.Case) {
	var p params
	c.P(&p)
	t := s.T
	ctx := context.Background()
	net := simnet.New(s, simnet.Config{})
	a, b := net.Pipe("A", "B", "10.0.0.1:1000", "10.0.0.2:9618")
	sa, sb := stream.NewStream(a), stream.NewStream(b)
	key := t.Bytes("key", 32)
	sa.SetSymmetricKey(key)
	sb.SetSymmetricKey(key)
	var blobA, blobB []byte
	var setupErr error
	s.Go("A0", func() {
		if err := sa.SendMessage(ctx, []byte("a1")); err != nil {
			setupErr = err
			return
		}
		if _, err := sa.ReceiveCompleteMessage(ctx); err != nil {
			setupErr = err
			return
		}
		blobA, setupErr = sa.ExportCryptoState()
	})
	s.Go("B0", func() {
		if _, err := sb.ReceiveCompleteMessage(ctx); err != nil {
			setupErr = err
			return
		}
		if err := sb.SendMessage(ctx, []byte("b1")); err != nil {
			setupErr = err
			return
		}
		var err error
		blobB, err = sb.ExportCryptoState()
		if err != nil {
			setupErr = err
		}
	})
	s.Run()
	if setupErr != nil || blobA == nil || blobB == nil {
		s.Violate("wrap-setup-failed", "export", fmt.Sprintf("%v", setupErr))
		return
	}
	// Locate the counters in the blob without mirroring its layout: both were 1
	// after one frame each way, and the two blobs hold each other's IVs swapped.
	// The counters are the two consecutive big-endian uint32(1) after the second IV.
	ko := bytes.Index(blobA, key)
	cntOff := ko + 32 + 32
	if ko < 0 || len(blobA) < cntOff+8 || binary.BigEndian.Uint32(blobA[cntOff:]) != 1 || binary.BigEndian.Uint32(blobA[cntOff+4:]) != 1 {
		s.Violate("wrap-setup-failed", "blob-layout", "cannot locate the counters in the exported blob")
		return
	}
	start := uint32(0xffffffff - uint32(p.Off))
	pa := append([]byte(nil), blobA...)
	pb := append([]byte(nil), blobB...)
	binary.BigEndian.PutUint32(pa[cntOff:], start)   // A's send counter
	binary.BigEndian.PutUint32(pb[cntOff+4:], start) // B's receive counter
	a2, b2 := a.Rewrap("A2"), b.Rewrap("B2")
	a2.Tap()
	na, err1 := stream.NewStreamWithCryptoState(a2, pa)
	nb, err2 := stream.NewStreamWithCryptoState(b2, pb)
	if err1 != nil || err2 != nil {
		s.Violate("wrap-setup-failed", "import", fmt.Sprintf("%v %v", err1, err2))
		return
	}
	// second phase in the same bubble: new scheduler run
	s2 := s
	var sendErr error
	sentN := 0
	var recvN int
	var recvErr error
	s2.Go("A1", func() {
		refusals := 0
		for i := 0; i < p.Off+8; i++ {
			if err := na.SendMessage(ctx, []byte{byte(i), 'w'}); err != nil {
				if sendErr == nil {
					sendErr = err
				}
				// exhaustion is final: the caller tries a few more times, nothing may leave the stream
				if refusals++; refusals >= 4 {
					return
				}
				continue
			}
			sentN++
		}
	})
	s2.Go("B1", func() {
		for {
			m, err := nb.ReceiveCompleteMessage(ctx)
			if err != nil {
				recvErr = err
				return
			}
			if len(m) != 2 || m[0] != byte(recvN) {
				recvErr = fmt.Errorf("wrong payload")
				return
			}
			recvN++
		}
	})
	s2.Run()
	defer func() { a2.CloseQuiet(); b2.CloseQuiet() }()
	// oracle: every emitted frame uses counter start+i < 2^32 (no wrap), so at most Off frames... the frame whose counter would be 0xffffffff+1 must never appear
	frames, _ := refcodec.ParseFrames(a2.SentBytes())
	maxFrames := int(uint64(1<<32) - uint64(start)) // counters start .. 2^32-1
	if len(frames) > maxFrames {
		s.Violate("counter-wrapped", fmt.Sprintf("off=%d", p.Off), fmt.Sprintf("%d frames emitted from counter %#x: the counter wrapped", len(frames), start))
		return
	}
	if sendErr == nil {
		s.Violate("no-refusal-at-counter-limit", fmt.Sprintf("off=%d", p.Off), fmt.Sprintf("sent %d frames from counter %#x without an error", sentN, start))
		return
	}
	// each emitted frame opens at its counter under the reference
	dir, _ := refcodec.NewGCMDir(key, nil)
	// recover A's base IV from the blob: it follows the key
	copy(dir.BaseIV[:], blobA[ko+32:ko+48])
	dir.HaveIV = true
	dir.Counter = start
	for i, f := range frames {
		if _, err := dir.Open(f); err != nil {
			s.Violate("frame-does-not-open", "wrap", fmt.Sprintf("frame %d at counter %#x: %v", i, start+uint32(i), err))
			return
		}
	}
	if recvN != len(frames) {
		s.Violate("wrap-receiver-lost-frames", fmt.Sprintf("off=%d", p.Off), fmt.Sprintf("receiver accepted %d of %d frames: %v", recvN, len(frames), recvErr))
		return
	}
	s.Probe("refused-at-counter-limit")
}

var scenarios = []*scen.Scenario{
	{Name: "wrap", Enumerated: true, Gen: func(g *scen.Gen) {
		for off := 0; off <= 6; off++ {
			if !g.Emit(scen.Case{Seed: g.Seed*31 + uint64(off), Params: scen.Params(params{Kind: "wrap", Off: off})}) {
				return
			}
		}
	}, Run: runWrap},
	{Name: "history", Weight: 3, Gen: func(g *scen.Gen) {
		for i := uint64(0); ; i++ {
			if !g.Emit(scen.Case{Seed: g.Seed*1_000_003 + i, Params: scen.Params(params{Kind: "history"})}) {
				return
			}
		}
	}, Run: runHistory},
	{Name: "write-error", Weight: 1, Gen: func(g *scen.Gen) {
		for i := uint64(0); ; i++ {
			if !g.Emit(scen.Case{Seed: g.Seed*1_000_081 + i}) {
				return
			}
		}
	}, Run: runWriteError},
	{Name: "rekey", Weight: 1, Gen: func(g *scen.Gen) {
		for i := uint64(0); ; i++ {
			if !g.Emit(scen.Case{Seed: g.Seed*1_000_033 + i}) {
				return
			}
		}
	}, Run: runRekey},
	{Name: "ref-sender", Weight: 1, Gen: func(g *scen.Gen) {
		for i := uint64(0); ; i++ {
			if !g.Emit(scen.Case{Seed: g.Seed*2_000_003 + i, Params: scen.Params(params{Kind: "ref-sender"})}) {
				return
			}
		}
	}, Run: runRefSender},
}

func TestScenario(t *testing.T) { scen.Main(t, "C12", scenarios) }
