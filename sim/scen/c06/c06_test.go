// C06 — session resumption requires the session key and never revives a dead
// session. The real server side (ServerHandshake, global cache) is driven by
// scripted requesters through generated histories of establish / resume /
// expire (virtual time) / invalidate, with a request catalogue tried at every
// point, and by a replayer that plays a recorded resumed connection back.
package c06

import (
	"bytes"
	"context"
	"errors"
	"fmt"
	"testing"
	"time"

	"cedarsim/hs"
	"cedarsim/kernel"
	"cedarsim/refcodec"
	"cedarsim/scen"
	"cedarsim/simnet"

	"github.com/PelicanPlatform/classad/classad"
	"github.com/bbockelm/cedar/message"
	"github.com/bbockelm/cedar/security"
	"github.com/bbockelm/cedar/stream"
)

type params struct {
	Kind string `json:"kind"` // history | replay
	Cut  int    `json:"cut,omitempty"`
	Dir  string `json:"dir,omitempty"`
}

const duration, lease = 600, 200

var serverCanary = []byte("SERVER-CANARY-reply-55aa33cc")
var clientApp = []byte("client-command-payload-0001")

type sessM struct {
	id          string
	key         []byte
	user        string
	authed      bool
	keyless     bool
	created     time.Time
	lastUse     time.Time
	invalidated bool
	// oddKey: registered directly in the cache with key material that cannot be installed
	// (not 32 bytes): it has "a key" but nothing can ever prove possession of it
	oddKey bool
}

func (x *sessM) deadline(max bool) time.Time {
	a, b := x.created.Add(duration*time.Second), x.lastUse.Add(lease*time.Second)
	if max == b.After(a) {
		return b
	}
	return a
}
func (x *sessM) definitelyDead(now time.Time) bool {
	return x.invalidated || now.After(x.deadline(true).Add(time.Second))
}
func (x *sessM) definitelyAlive(now time.Time) bool {
	return !x.invalidated && now.Before(x.deadline(false).Add(-time.Second))
}

type world struct {
	s    *kernel.Sim
	t    *kernel.Tape
	net  *simnet.Net
	n    int
	bg   context.Context
	scfg func() *security.SecurityConfig
}

type srvResult struct {
	neg    *security.SecurityNegotiation
	hsErr  error
	appGot []byte
	appErr error
	sent   bool
	done   bool
	at     time.Time // when ServerHandshake returned
}

// serve runs the real server side on one connection: handshake, then it sends a
// canary and reads one application message.
func (w *world) serve(pr *hs.Pair, res *srvResult) {
	st := pr.SS
	// The resuming server's policy leaves authentication optional: the histories also
	// establish unauthenticated sessions (under a matching permissive policy), and whether
	// a session meets a stricter policy than it was created under is C03's and C05's
	// subject, not this property's (keys and dead sessions).
	rcfg := w.scfg()
	rcfg.Authentication = security.SecurityOptional
	if w.s.T.Chance("resume-enc-optional", 1, 3) {
		rcfg.Encryption = security.SecurityOptional // a keyed session still resumes encrypted
	}
	a := security.NewAuthenticator(rcfg, st)
	res.neg, res.hsErr = a.ServerHandshake(w.bg)
	res.at = time.Now()
	if res.hsErr != nil {
		pr.SE.Close()
		res.done = true
		return
	}
	if st.SendMessage(w.bg, serverCanary) == nil {
		res.sent = true
	}
	res.appGot, res.appErr = st.ReceiveCompleteMessage(w.bg)
	pr.SE.Close()
	res.done = true
}

type request struct {
	sid      string
	key      []byte // nil: requester holds no key
	response bool
	fromAddr string
	cmd      int
	what     string
}

type reqResult struct {
	reply      *classad.ClassAd
	replyErr   error
	gotCanary  []byte
	canaryErr  error
	c2s, s2c   []byte
	srv        srvResult
	sentApp    bool
	serverWire []byte
}

// resumeRequest performs one scripted resumption request against the real server.
func (w *world) resumeRequest(rq request) *reqResult {
	w.n++
	r := &reqResult{}
	from := rq.fromAddr
	if from == "" {
		from = "10.0.0.1"
	}
	ce, se := w.net.Pipe(fmt.Sprintf("req%d", w.n), fmt.Sprintf("srv%d", w.n), simnet.Addr(fmt.Sprintf("%s:%d", from, 52000)), "10.0.0.2:9618")
	ce.Tap()
	se.Tap()
	pr := &hs.Pair{Net: w.net, CE: ce, SE: se, CS: stream.NewStream(ce), SS: stream.NewStream(se)}
	w.s.Go(fmt.Sprintf("server%d", w.n), func() { w.serve(pr, &r.srv) })
	w.s.Go(fmt.Sprintf("requester%d", w.n), func() {
		st := pr.CS
		ad := classad.New()
		_ = ad.Set("Command", rq.cmd)
		_ = ad.Set("UseSession", "YES")
		_ = ad.Set("Sid", rq.sid)
		_ = ad.Set("ResumeResponse", rq.response)
		_ = ad.Set("RemoteVersion", "$CondorVersion: 25.4.0 2025-10-31 BuildID: 1 $")
		_ = ad.Set("CryptoMethods", "AES")
		m := message.NewMessageForStream(st)
		_ = m.PutInt(w.bg, 60010)
		_ = m.PutClassAd(w.bg, ad)
		if err := m.FinishMessage(w.bg); err != nil {
			r.replyErr = err
			return
		}
		if rq.response {
			rm := message.NewMessageFromStream(st)
			r.reply, r.replyErr = rm.GetClassAd(w.bg)
			if r.replyErr != nil {
				pr.CE.Close()
				return
			}
			if rc, _ := r.reply.EvaluateAttrString("ReturnCode"); rc != "AUTHORIZED" {
				pr.CE.Close()
				return
			}
		}
		if rq.key != nil {
			if err := st.SetSymmetricKey(rq.key); err != nil {
				panic(err)
			}
		} else {
			st.FinalizeDigests()
		}
		// the server speaks first after a resumption (it sends a canary, then reads), so
		// read before writing: with a small send window the reverse order would deadlock
		r.gotCanary, r.canaryErr = st.ReceiveCompleteMessage(w.bg)
		if st.SendMessage(w.bg, clientApp) == nil {
			r.sentApp = true
		}
		pr.CE.Close()
	})
	w.s.Run()
	pr.CE.CloseQuiet()
	pr.SE.CloseQuiet()
	r.c2s, r.s2c = append([]byte(nil), ce.SentBytes()...), append([]byte(nil), se.SentBytes()...)
	return r
}

// establish runs a real full handshake; keyless sessions come from a cipher mismatch.
func (w *world) establish(keyless bool, authed bool) (*sessM, error) {
	w.n++
	pr := hs.NewPair(w.net, w.n)
	lv := security.SecurityRequired
	var methods []security.AuthMethod
	if authed {
		methods = []security.AuthMethod{security.AuthClaimToBe}
	} else {
		lv = security.SecurityNever
	}
	elv := security.SecurityRequired
	ciph := hs.AES
	if keyless {
		elv = security.SecurityOptional
		ciph = []security.CryptoMethod{security.CryptoBlowfish}
	}
	ccfg := hs.Cfg(lv, elv, methods, ciph, 60021)
	ccfg.SessionCache = security.NewSessionCache()
	var cn, sn *security.SecurityNegotiation
	var cerr, serr error
	w.s.Go(fmt.Sprintf("est-client%d", w.n), func() {
		cn, cerr = security.NewAuthenticator(ccfg, pr.CS).ClientHandshake(w.bg)
		pr.CE.Close()
	})
	w.s.Go(fmt.Sprintf("est-server%d", w.n), func() {
		cfg := w.scfg()
		cfg.Authentication = lv
		cfg.AuthMethods = methods
		cfg.Encryption = elv
		sn, serr = security.NewAuthenticator(cfg, pr.SS).ServerHandshake(w.bg)
		pr.SE.Close()
	})
	w.s.Run()
	pr.CE.CloseQuiet()
	pr.SE.CloseQuiet()
	if cerr != nil || serr != nil {
		return nil, fmt.Errorf("client %v server %v", cerr, serr)
	}
	now := time.Now()
	x := &sessM{id: cn.SessionId, key: append([]byte(nil), cn.GetSharedSecret()...), user: sn.User, authed: sn.Authentication, keyless: keyless || len(cn.GetSharedSecret()) == 0, created: now, lastUse: now}
	return x, nil
}

func mutateID(id string, how int) string {
	switch how {
	case 1:
		return id + "0"
	case 2:
		if len(id) > 1 {
			return id[:len(id)-1]
		}
	case 3:
		b := []byte(id)
		b[len(b)/2] ^= 1
		return string(b)
	}
	return "nosuchhost:1:946684800:99"
}

// judge applies the oracle to one request.
func (w *world) judge(x *sessM, rq request, r *reqResult, idIsReal bool, keyKind string) bool {
	s := w.s
	now := time.Now()
	if !r.srv.at.IsZero() {
		now = r.srv.at // the instant at which the server decided
	}
	sig := fmt.Sprintf("%s/key=%s/response=%v", rq.what, keyKind, rq.response)
	desc := fmt.Sprintf("request %s (key %s, reply requested %v, from %s)", rq.what, keyKind, rq.response, rq.fromAddr)
	resumed := r.srv.hsErr == nil && r.srv.neg != nil
	s.Note("t=%v %s sid=%s -> resumed=%v hsErr=%v", now.Sub(s.Start), desc, rq.sid, resumed, r.srv.hsErr)
	if idIsReal && x != nil && x.oddKey {
		if resumed {
			s.Violate("dead-or-keyless-session-resumed", "session key unusable/"+sig, fmt.Sprintf("%s: the cached session's key material cannot be installed, yet ServerHandshake resumed it (encrypted=%v) for a requester that only knows the id", desc, r.srv.neg.Encryption))
			return false
		}
		s.Probe("refused:session key unusable")
		return true
	}
	mustRefuse := !idIsReal || (x != nil && (x.definitelyDead(now) || x.keyless))
	if mustRefuse {
		why := "unknown id"
		if idIsReal && x.keyless {
			why = "session has no key"
		} else if idIsReal {
			why = "session expired or invalidated"
		}
		if resumed {
			detail := ""
			if x != nil {
				detail = fmt.Sprintf(" [session created t=%v, last accepted use t=%v, invalidated=%v, now t=%v; duration %ds lease %ds]", x.created.Sub(s.Start), x.lastUse.Sub(s.Start), x.invalidated, now.Sub(s.Start), duration, lease)
			}
			s.Violate("dead-or-keyless-session-resumed", fmt.Sprintf("%s/%s", why, sig), fmt.Sprintf("%s: %s, yet ServerHandshake resumed it (encrypted=%v)%s", desc, why, r.srv.neg.Encryption, detail))
			return false
		}
		if rq.response {
			rc := ""
			if r.reply != nil {
				rc, _ = r.reply.EvaluateAttrString("ReturnCode")
			}
			if rc != "SID_NOT_FOUND" {
				s.Violate("requester-not-told", fmt.Sprintf("%s/%s", why, sig), fmt.Sprintf("%s: %s; reply was %q (err %v), expected SID_NOT_FOUND", desc, why, rc, r.replyErr))
				return false
			}
		}
		s.Probe("refused:" + why)
		return true
	}
	if !resumed {
		if x.definitelyAlive(now) && keyKind == "right" {
			s.Violate("live-session-not-resumed", sig, fmt.Sprintf("%s: session definitely alive but ServerHandshake failed: %v", desc, r.srv.hsErr))
			return false
		}
		s.Probe("refused-in-grey-zone")
		return true
	}
	// The server renews the lease on every resumption it accepts (it cannot know yet
	// whether the requester holds the key), so any accepted resumption counts as a use.
	x.lastUse = now
	// resumed: from here on every byte must be protected by the session key
	if bytes.Contains(r.s2c, serverCanary) {
		s.Violate("server-sent-cleartext-after-resumption", sig, desc+": the server's reply is readable on the wire without the key")
		return false
	}
	// the server's post-resumption frames open under the session key (reference codec)
	frames, _ := refcodec.ParseFrames(r.s2c)
	nclear := 0
	if rq.response {
		nclear = 1
	}
	if r.srv.sent && len(frames) > nclear {
		dC, dS := refcodec.NewDigest(), refcodec.NewDigest()
		cf, _ := refcodec.ParseFrames(r.c2s)
		if len(cf) > 0 {
			dC.Add(cf[0].Raw)
		}
		for i := 0; i < nclear; i++ {
			dS.Add(frames[i].Raw)
		}
		dir, _ := refcodec.NewGCMDir(x.key, append(append([]byte(nil), dS.Final()...), dC.Final()...))
		pt, err := dir.Open(frames[nclear])
		if err != nil || !bytes.Equal(pt, serverCanary) {
			s.Violate("server-frame-not-under-session-key", sig, fmt.Sprintf("%s: first frame after the resumption reply does not open under the session key: %v", desc, err))
			return false
		}
		s.Probe("server-frame-opens-under-session-key")
	}
	if keyKind != "right" {
		if r.srv.appErr == nil && r.srv.appGot != nil {
			s.Violate("keyless-requester-data-accepted", sig, fmt.Sprintf("%s: the server accepted %d application bytes from a requester without the session key", desc, len(r.srv.appGot)))
			return false
		}
		if r.canaryErr == nil && bytes.Equal(r.gotCanary, serverCanary) {
			s.Violate("keyless-requester-read-reply", sig, desc+": a requester without the key read the server's reply")
			return false
		}
		s.Probe("keyless-requester-locked-out")
		return true
	}
	// right key: data flows, identity restored
	if r.srv.appErr != nil || !bytes.Equal(r.srv.appGot, clientApp) || !bytes.Equal(r.gotCanary, serverCanary) {
		if x.definitelyAlive(now) {
			s.Violate("resumed-session-does-not-carry-data", sig, fmt.Sprintf("%s: server app read %v (%d bytes), requester read %v", desc, r.srv.appErr, len(r.srv.appGot), r.canaryErr))
			return false
		}
	}
	if r.srv.neg.User != x.user || r.srv.neg.Authentication != x.authed {
		s.Violate("resumed-identity-differs", sig, fmt.Sprintf("%s: original user %q authenticated=%v; resumed reports user %q authenticated=%v", desc, x.user, x.authed, r.srv.neg.User, r.srv.neg.Authentication))
		return false
	}
	if !bytes.Equal(r.srv.neg.GetSharedSecret(), x.key) {
		s.Violate("resumed-key-differs", sig, desc)
		return false
	}
	x.lastUse = now
	s.Probe("resumed-with-key")
	return true
}

func newWorld(s *kernel.Sim) *world {
	w := &world{s: s, t: s.T, bg: context.Background()}
	s.Quantum, s.IdleMax = 3*time.Second, 1 // a phase that ends blocked must not burn minutes of session lifetime
	w.net = simnet.New(s, simnet.DrawConfig(s.T))
	// Some servers are configured with a cache of their own: negotiated sessions still
	// live in the global cache, so resumption then goes through the global fallback.
	var iso *security.SessionCache
	if s.T.Chance("isolated-server-cache", 1, 3) {
		iso = security.NewSessionCache()
		s.Probe("server-with-isolated-cache")
	}
	w.scfg = func() *security.SecurityConfig {
		cfg := hs.Cfg(security.SecurityRequired, security.SecurityRequired, []security.AuthMethod{security.AuthClaimToBe}, hs.AES, security.NoCommand)
		cfg.SessionDuration, cfg.SessionLease = duration, lease
		cfg.SessionCache = iso
		return cfg
	}
	return w
}

func runHistory(s *kernel.Sim, c *scen.Case) {
	hs.Init()
	t := s.T
	w := newWorld(s)
	var sessions []*sessM
	wrongKey := t.Bytes("wrongkey", 32)
	tryCatalogue := func() bool {
		// a few drawn requests from the catalogue at this point of the history
		for k := 0; k < 3; k++ {
			var x *sessM
			if len(sessions) > 0 {
				x = sessions[t.Choose("which", len(sessions))]
			}
			rq := request{cmd: 60021, response: t.Choose("resp", 2) == 1}
			if t.Chance("otheraddr", 1, 4) {
				rq.fromAddr = "10.9.9.9"
			} else {
				rq.fromAddr = "10.0.0.1"
			}
			idKind := t.Choose("idkind", 6)
			keyKind := kernel.Pick(t, "keykind", "right", "wrong", "none")
			idIsReal := x != nil && idKind <= 2
			if idIsReal {
				rq.sid, rq.what = x.id, "right-id"
			} else {
				base := "simhost:4242:946684800:1"
				if x != nil {
					base = x.id
				}
				how := t.Choose("mut", 4)
				rq.sid, rq.what = mutateID(base, how), fmt.Sprintf("wrong-id-%d", how)
				x = nil
			}
			switch keyKind {
			case "right":
				if x != nil && !x.keyless && !x.oddKey {
					rq.key = x.key
				} else {
					keyKind = "none"
				}
			case "wrong":
				rq.key = wrongKey
			}
			r := w.resumeRequest(rq)
			if !w.judge(x, rq, r, idIsReal, keyKind) {
				return false
			}
		}
		return true
	}
	n := 4 + t.Choose("nops", 7)
	for i := 0; i < n; i++ {
		switch op := t.Choose("op", 8); {
		case op <= 1 && len(sessions) < 3:
			keyless := t.Chance("keyless", 1, 4)
			x, err := w.establish(keyless, t.Choose("authed", 2) == 1)
			if err != nil {
				s.Violate("establish-failed", fmt.Sprintf("keyless=%v", keyless), err.Error())
				return
			}
			if keyless {
				s.Probe("keyless-session-established")
			}
			sessions = append(sessions, x)
		case op == 2:
			d := kernel.Pick(t, "sleep", 100, 199, 201, 400, 599, 601, 900)
			w.sleep(time.Duration(d) * time.Second)
		case op == 3 && len(sessions) > 0:
			x := sessions[t.Choose("inv", len(sessions))]
			security.InvalidateSession(x.id)
			x.invalidated = true
			s.Probe("invalidated")
		case op == 4:
			security.InvalidateExpiredSessions()
		case op == 5 && len(sessions) < 3 && t.Chance("odd-key-session", 1, 3):
			// a session registered programmatically (as claim import does) with 16 bytes of key
			id := fmt.Sprintf("simhost:4242:946684800:odd%d", i)
			pol := classad.New()
			_ = pol.Set("Authenticated", true)
			_ = pol.Set("User", "someone@pool.sim")
			_ = pol.Set("AuthMethods", "CLAIMTOBE")
			ki := &security.KeyInfo{Data: t.Bytes("oddkey", 16), Protocol: "AESGCM"}
			if t.Chance("odd-protocol", 1, 2) {
				// ... or a full-length key under a cipher cedar cannot run on the stream
				ki = &security.KeyInfo{Data: t.Bytes("oddkey", 32), Protocol: "BLOWFISH"}
			}
			e := security.NewSessionEntry(id, "", ki, pol, time.Now().Add(duration*time.Second), lease*time.Second, "")
			security.GetSessionCache().Store(e)
			now := time.Now()
			sessions = append(sessions, &sessM{id: id, key: nil, keyless: false, oddKey: true, authed: true, created: now, lastUse: now})
			s.Probe("odd-key-session-registered")
		default:
			if !tryCatalogue() {
				return
			}
		}
	}
	tryCatalogue()
}

func (w *world) sleep(d time.Duration) {
	w.s.Go("sleeper", func() { w.s.Sleep("hist", d) })
	w.s.Run()
}

// runReplay: a recorded legitimate resumed connection is played back by a party without the key.
func runReplay(s *kernel.Sim, c *scen.Case) {
	var p params
	c.P(&p)
	hs.Init()
	w := newWorld(s)
	x, err := w.establish(false, true)
	if err != nil {
		s.Violate("establish-failed", "replay", err.Error())
		return
	}
	rec := w.resumeRequest(request{sid: x.id, key: x.key, response: true, fromAddr: "10.0.0.1", cmd: 60021, what: "recorded"})
	if rec.srv.hsErr != nil || !bytes.Equal(rec.srv.appGot, clientApp) {
		s.Violate("live-session-not-resumed", "replay-baseline", fmt.Sprintf("legitimate resumption failed: %v / %v", rec.srv.hsErr, rec.srv.appErr))
		return
	}
	if p.Dir == "c2s" {
		frames, _ := refcodec.ParseFrames(rec.c2s)
		if p.Cut > len(frames) {
			s.Probe("cut-beyond-recording")
			return
		}
		var play []byte
		for i := 0; i < p.Cut; i++ {
			play = append(play, frames[i].Raw...)
		}
		w.n++
		ce, se := w.net.Pipe("replayer", "srvR", "10.6.6.6:40000", "10.0.0.2:9618")
		pr := &hs.Pair{Net: w.net, CE: ce, SE: se, CS: stream.NewStream(ce), SS: stream.NewStream(se)}
		var res srvResult
		s.Go("serverR", func() { w.serve(pr, &res) })
		s.Go("replayer-writer", func() { ce.Write(play) })
		s.Go("replayer", func() {
			buf := make([]byte, 4096)
			for {
				if _, err := ce.Read(buf); err != nil {
					return
				}
			}
		})
		s.Run()
		ce.CloseQuiet()
		se.CloseQuiet()
		s.Fault("replay-c2s")
		s.Note("replayed %d of %d recorded client frames: server handshake err=%v, app read err=%v, got %d bytes", p.Cut, len(frames), res.hsErr, res.appErr, len(res.appGot))
		if res.hsErr == nil && res.appErr == nil && res.appGot != nil {
			s.Violate("replay-accepted", fmt.Sprintf("c2s/frames=%d-of-%d", p.Cut, len(frames)), fmt.Sprintf("the server accepted %q replayed byte-for-byte from an earlier connection of the session by a party without the key", res.appGot))
			return
		}
		s.Probe("replay-c2s-rejected")
		return
	}
	// s2c: the recorded server stream is offered to an honest client resuming the same session
	cache := security.NewSessionCache()
	pol := classad.New()
	_ = pol.Set("CryptoMethods", "AES")
	cache.Store(security.NewSessionEntry(x.id, "<10.0.0.2:9618>", &security.KeyInfo{Data: x.key, Protocol: "AES"}, pol, time.Now().Add(time.Hour), time.Hour, ""))
	cache.MapCommand("", "<10.0.0.2:9618>", "60021", x.id)
	// first a legitimate resumed connection by the honest client against the real server: its
	// server->client bytes are the recording
	{
		ce0, se0 := w.net.Pipe("honest0", "srv0", "10.0.0.1:40000", "10.0.0.2:9618")
		se0.Tap()
		pr0 := &hs.Pair{Net: w.net, CE: ce0, SE: se0, CS: stream.NewStream(ce0), SS: stream.NewStream(se0)}
		var res0 srvResult
		var h0 error
		var got0 []byte
		s.Go("server0", func() { w.serve(pr0, &res0) })
		s.Go("honest-client0", func() {
			cfg := hs.Cfg(security.SecurityRequired, security.SecurityRequired, []security.AuthMethod{security.AuthClaimToBe}, hs.AES, 60021)
			cfg.SessionCache = cache
			_, h0 = security.NewAuthenticator(cfg, pr0.CS).ClientHandshake(context.Background())
			if h0 == nil {
				got0, _ = pr0.CS.ReceiveCompleteMessage(context.Background())
				_ = pr0.CS.SendMessage(context.Background(), clientApp)
			}
			ce0.Close()
		})
		s.Run()
		ce0.CloseQuiet()
		se0.CloseQuiet()
		if h0 != nil || !bytes.Equal(got0, serverCanary) {
			s.Violate("live-session-not-resumed", "replay-baseline-s2c", fmt.Sprintf("legitimate resumption by the real client failed: %v", h0))
			return
		}
		rec.s2c = append([]byte(nil), se0.SentBytes()...)
	}
	frames, _ := refcodec.ParseFrames(rec.s2c)
	if p.Cut > len(frames) {
		s.Probe("cut-beyond-recording")
		return
	}
	var play []byte
	for i := 0; i < p.Cut; i++ {
		play = append(play, frames[i].Raw...)
	}
	ce, se := w.net.Pipe("honest", "fake-server", "10.0.0.1:40001", "10.0.0.2:9618")
	var got []byte
	var gerr, herr error
	s.Go("honest-client", func() {
		cfg := hs.Cfg(security.SecurityRequired, security.SecurityRequired, []security.AuthMethod{security.AuthClaimToBe}, hs.AES, 60021)
		cfg.SessionCache = cache
		st := stream.NewStream(ce)
		_, herr = security.NewAuthenticator(cfg, st).ClientHandshake(context.Background())
		if herr != nil {
			ce.Close()
			return
		}
		got, gerr = st.ReceiveCompleteMessage(context.Background())
		ce.Close()
	})
	s.Go("fake-server", func() {
		buf := make([]byte, 4096)
		if _, err := se.Read(buf); err != nil {
			return
		}
		s.Go("fake-server-writer", func() { se.Write(play) })
		for {
			if _, err := se.Read(buf); err != nil {
				return
			}
		}
	})
	s.Run()
	ce.CloseQuiet()
	se.CloseQuiet()
	s.Fault("replay-s2c")
	if herr == nil && gerr == nil && got != nil {
		s.Violate("replay-accepted", fmt.Sprintf("s2c/frames=%d-of-%d", p.Cut, len(frames)), fmt.Sprintf("an honest client accepted %q replayed from an earlier connection of the session by a party without the key", got))
		return
	}
	if errors.Is(gerr, simnet.ErrSimEnded) {
		s.Probe("replay-s2c-client-blocked")
	}
	s.Probe("replay-s2c-rejected")
}

var scenarios = []*scen.Scenario{
	{Name: "replay", Enumerated: true, Gen: func(g *scen.Gen) {
		seed := g.Seed * 6151
		for _, dir := range []string{"c2s", "s2c"} {
			for cut := 1; cut <= 3; cut++ {
				seed++
				if !g.Emit(scen.Case{Seed: seed, Params: scen.Params(params{Kind: "replay", Dir: dir, Cut: cut})}) {
					return
				}
			}
		}
	}, Run: runReplay},
	{Name: "history", Gen: func(g *scen.Gen) {
		for i := uint64(0); ; i++ {
			if !g.Emit(scen.Case{Seed: g.Seed*1_000_003 + i, Params: scen.Params(params{Kind: "history"})}) {
				return
			}
		}
	}, Run: runHistory},
}

func TestScenario(t *testing.T) { scen.Main(t, "C06", scenarios) }
