// C02 — an encrypted stream delivers only an authentic, in-order prefix of
// what was sent. Two keyed real streams; a frame-aware on-path filter applies
// one enumerated fault (or several random ones) to the A->B frame sequence;
// the oracle compares what the receive API handed out with the sent sequence
// and with the position of the first byte the filter changed.
package c02

import (
	"bytes"
	"context"
	"errors"
	"fmt"
	"testing"

	"cedarsim/kernel"
	"cedarsim/refcodec"
	"cedarsim/scen"
	"cedarsim/simnet"

	"github.com/bbockelm/cedar/message"
	"github.com/bbockelm/cedar/stream"
)

type fault struct {
	Kind string `json:"kind"`
	I    int    `json:"i"`
	J    int    `json:"j,omitempty"`
	Bit  int    `json:"bit,omitempty"`
	N    int    `json:"n,omitempty"`
	End  int    `json:"end,omitempty"`
}

type params struct {
	Family int     `json:"family"` // index into families; -1: drawn from the tape
	Recv   int     `json:"recv"`
	Faults []fault `json:"faults,omitempty"`
}

// families: each message is a list of frame payload sizes (last frame ends the message).
var families = [][][]int{
	{{5}},
	{{8}, {0}, {3, 4}},
	{{0, 0, 6}, {16}, {1, 0}},
	{{64}, {1}, {2}, {3}},
	{{7, 7, 7}, {}, {9}},
}

func normalise(fam [][]int) [][]int {
	out := make([][]int, len(fam))
	for i, m := range fam {
		if len(m) == 0 {
			m = []int{0}
		}
		out[i] = m
	}
	return out
}

func wireLens(fam [][]int) []int {
	var out []int
	first := true
	for _, m := range normalise(fam) {
		for _, p := range m {
			n := 5 + p + 16
			if first {
				n += 16
				first = false
			}
			out = append(out, n)
		}
	}
	return out
}

const (
	recvComplete = iota
	recvStartRead
	recvFrames
	recvRemaining
	nRecv
)

type adversary struct {
	s       *kernel.Sim
	faults  []fault
	held    map[int][]byte
	other   func() []byte // a frame recorded from the opposite direction
	nframes int
	t       *kernel.Tape
}

func flipBit(raw []byte, bit int) []byte {
	out := append([]byte(nil), raw...)
	if bit/8 < len(out) {
		out[bit/8] ^= 1 << (7 - uint(bit%8))
	}
	return out
}

func (a *adversary) forged(f fault) []byte {
	payload := make([]byte, f.N)
	for i := range payload {
		payload[i] = byte(0xA5 ^ i*31 ^ f.N)
	}
	return refcodec.MakeFrame(byte(f.End), payload)
}

func (a *adversary) onFrame(idx int, raw []byte) ([][]byte, bool) {
	out := [][]byte{raw}
	closeAfter := false
	for _, f := range a.faults {
		switch f.Kind {
		case "flip":
			if f.I == idx {
				a.s.Fault("flip-bit")
				out = [][]byte{flipBit(raw, f.Bit)}
			}
		case "drop":
			if f.I == idx {
				a.s.Fault("drop-frame")
				out = nil
			}
		case "dup":
			if f.I == idx {
				a.s.Fault("dup-frame")
				out = append(out, raw)
			}
		case "swap":
			if f.I == idx {
				a.s.Fault("swap-hold")
				a.held[idx] = raw
				out = nil
			} else if f.I+1 == idx {
				if h, ok := a.held[f.I]; ok {
					a.s.Fault("swap-frames")
					out = append(out, h)
				}
			}
		case "replay":
			if f.I == idx {
				a.held[1000+idx] = raw
			} else if f.J == idx {
				if h, ok := a.held[1000+f.I]; ok {
					a.s.Fault("replay-frame")
					out = append(out, h)
				}
			}
		case "trunc":
			if f.I == idx {
				a.s.Fault("truncate")
				n := f.N
				if n > len(raw) {
					n = len(raw)
				}
				out = [][]byte{raw[:n]}
				closeAfter = true
			}
		case "insert":
			if f.I == idx {
				a.s.Fault("insert-forged")
				out = append([][]byte{a.forged(f)}, out...)
			} else if f.I == a.nframes && idx == a.nframes-1 {
				a.s.Fault("insert-forged")
				out = append(out, a.forged(f))
			}
		case "other":
			if o := a.other(); o != nil {
				if f.I == idx {
					a.s.Fault("insert-other-direction")
					out = append([][]byte{o}, out...)
				} else if f.I == a.nframes && idx == a.nframes-1 {
					a.s.Fault("insert-other-direction")
					out = append(out, o)
				}
			}
		}
	}
	return out, closeAfter
}

func faultSig(fs []fault) string {
	if len(fs) == 0 {
		return "none"
	}
	if len(fs) > 1 {
		return "multi"
	}
	f := fs[0]
	switch f.Kind {
	case "insert":
		lc := "len>=16"
		if f.N == 0 {
			lc = "len0"
		} else if f.N < 16 {
			lc = "len<16"
		}
		return fmt.Sprintf("insert/%s/end%d", lc, f.End)
	case "flip":
		part := "body"
		if f.Bit < 40 {
			part = "header"
		}
		return "flip/" + part
	}
	return f.Kind
}

func run(s *kernel.Sim, c *scen.Case) {
	var p params
	c.P(&p)
	t := s.T
	ctx := context.Background()
	var fam [][]int
	if p.Family >= 0 {
		fam = normalise(families[p.Family])
	} else {
		nm := 1 + t.Choose("nmsg", 5)
		for i := 0; i < nm; i++ {
			nf := 1 + t.Choose("nframes", 3)
			var m []int
			for j := 0; j < nf; j++ {
				m = append(m, kernel.Pick(t, "plen", 0, 1, 5, 15, 16, 17, 40, 64))
			}
			fam = append(fam, m)
		}
	}
	faults := p.Faults
	nframes := 0
	for _, m := range fam {
		nframes += len(m)
	}
	if p.Family < 0 {
		wl := wireLens(fam)
		nfault := 2 + t.Choose("nfaults", 2)
		for k := 0; k < nfault; k++ {
			i := t.Choose("f.i", nframes)
			switch t.Choose("f.kind", 8) {
			case 0:
				faults = append(faults, fault{Kind: "flip", I: i, Bit: t.Choose("f.bit", wl[i]*8)})
			case 1:
				faults = append(faults, fault{Kind: "drop", I: i})
			case 2:
				faults = append(faults, fault{Kind: "dup", I: i})
			case 3:
				faults = append(faults, fault{Kind: "swap", I: i})
			case 4:
				faults = append(faults, fault{Kind: "replay", I: i, J: i + 1 + t.Choose("f.j", nframes)})
			case 5:
				faults = append(faults, fault{Kind: "trunc", I: i, N: t.Choose("f.n", wl[i])})
			case 6:
				faults = append(faults, fault{Kind: "insert", I: t.Choose("f.pos", nframes+1), N: kernel.Pick(t, "f.len", 0, 1, 15, 16, 17, 32), End: kernel.Pick(t, "f.end", 0, 1, 2, 10, 11)})
			case 7:
				faults = append(faults, fault{Kind: "other", I: t.Choose("f.pos", nframes+1)})
			}
		}
	}
	// sent messages
	var S [][]byte
	for mi, m := range fam {
		var body []byte
		for fi, n := range m {
			for k := 0; k < n; k++ {
				body = append(body, byte(0x30+mi*17+fi*5+k))
			}
		}
		S = append(S, body)
	}
	cfg := simnet.DrawConfig(t)
	net := simnet.New(s, cfg)
	a, b := net.Pipe("A", "B", "10.0.0.1:1000", "10.0.0.2:9618")
	a.Tap()
	b.Tap()
	adv := &adversary{s: s, faults: faults, held: map[int][]byte{}, nframes: nframes, t: t}
	adv.other = func() []byte {
		fr, _ := refcodec.ParseFrames(b.WireBytes())
		if len(fr) == 0 {
			return nil
		}
		return fr[0].Raw
	}
	ff := &simnet.FrameFilter{OnFrame: adv.onFrame}
	sa, sb := stream.NewStream(a), stream.NewStream(b)
	key := t.Bytes("key", 32)
	// A cleartext preamble A->B precedes key installation, as in every real
	// session (the client's request is always in the clear), so that the two
	// handshake digests differ per direction.
	preamble := []byte("cleartext-preamble")
	var D [][]byte
	var afterErr [][]byte // complete messages returned by reads made after the first receive error
	var partial []byte // frame data handed out for a message that did not complete
	var recvErr error
	backMsg := []byte("from-B-to-A")
	const backSecret = "s3cr3t-from-B"
	secretFirst := t.Chance("secret-first", 1, 3)
	if secretFirst {
		s.Probe("secret-before-transcript")
	}
	var backGot []byte
	var backErr error
	s.Go("A", func() {
		if err := sa.SendMessage(ctx, preamble); err != nil {
			panic(err)
		}
		if err := sa.SetSymmetricKey(key); err != nil {
			panic(err)
		}
		a.SetFilter(ff)
		if secretFirst {
			if sv, err := sa.GetSecret(ctx); err != nil || sv != backSecret {
				backErr = fmt.Errorf("secret from B: %q, %v", sv, err)
				return
			}
		}
		backGot, backErr = sa.ReceiveCompleteMessage(ctx)
		for mi, m := range fam {
			off := 0
			for fi, n := range m {
				chunk := S[mi][off : off+n]
				off += n
				var err error
				if fi == len(m)-1 {
					err = sa.SendMessage(ctx, chunk)
				} else {
					err = sa.SendPartialMessage(ctx, chunk)
				}
				if err != nil {
					return
				}
			}
		}
		a.Close()
	})
	s.Go("B", func() {
		if pre, err := sb.ReceiveCompleteMessage(ctx); err != nil || !bytes.Equal(pre, preamble) {
			panic(fmt.Sprintf("preamble: %v", err))
		}
		if err := sb.SetSymmetricKey(key); err != nil {
			panic(err)
		}
		if secretFirst {
			// a secret travels first, on streams that are already encrypting: the per-stream
			// secret toggle must leave both of them encrypting for everything that follows
			if err := sb.PutSecret(ctx, backSecret); err != nil {
				recvErr = err
				return
			}
		}
		if err := sb.SendMessage(ctx, backMsg); err != nil {
			recvErr = err
			return
		}
		for i := 0; i < len(S)+3; i++ {
			api := p.Recv
			if i >= len(S) && api == recvStartRead {
				api = recvComplete
			}
			switch api {
			case recvComplete:
				m, err := sb.ReceiveCompleteMessage(ctx)
				if err != nil {
					recvErr = err
					// an application that keeps reading after the error must still see nothing but
					// the in-order continuation of what was sent (a rejected frame must not use up
					// its place, letting later frames through)
					for k := 0; k < 4; k++ {
						m2, err2 := sb.ReceiveCompleteMessage(ctx)
						if err2 != nil {
							if k > 0 {
								break
							}
							continue
						}
						afterErr = append(afterErr, m2)
					}
					return
				}
				D = append(D, m)
			case recvStartRead:
				if err := sb.StartMessageRead(ctx); err != nil {
					recvErr = err
					return
				}
				buf := make([]byte, len(S[i]))
				got := 0
				for got < len(buf) {
					n, err := sb.ReadMessageBytes(ctx, buf[got:])
					if err != nil {
						recvErr = err
						partial = buf[:got]
						return
					}
					if n == 0 {
						break
					}
					got += n
				}
				if err := sb.EndMessageRead(); err != nil {
					// leftover or missing bytes: the message differs from what was sent
					recvErr = err
					D = append(D, append(buf[:got:got], []byte("<EndMessageRead: "+err.Error()+">")...))
					return
				}
				D = append(D, buf[:got])
			case recvFrames:
				var acc []byte
				for {
					d, eom, err := sb.ReadFrame(ctx)
					if err != nil {
						recvErr = err
						partial = acc
						return
					}
					acc = append(acc, d...)
					if eom {
						break
					}
				}
				D = append(D, acc)
			case recvRemaining:
				mm := message.NewMessageFromStream(sb)
				d, err := mm.GetRemainingBytes(ctx)
				if err != nil {
					recvErr = err
					return
				}
				D = append(D, d)
			}
		}
	})
	s.Run()
	defer func() { a.CloseQuiet(); b.CloseQuiet() }()
	for _, tk := range s.Tasks() {
		if tk.Panic != nil {
			s.Violate("panic", faultSig(faults), fmt.Sprintf("task %s panicked: %v\n%s", tk.Name, tk.Panic, tk.Stack))
			return
		}
	}
	if backErr != nil || !bytes.Equal(backGot, backMsg) {
		s.Violate("reverse-direction-broken", "none", fmt.Sprintf("B->A message not delivered intact: %v", backErr))
	}
	if recvErr != nil && errors.Is(recvErr, simnet.ErrSimEnded) {
		recvErr = nil // receiver was still blocked when the run ended
	}
	sent, wire := a.SentBytes(), a.WireBytes()
	// first byte where what travelled differs from what was written
	diff := -1
	n := len(sent)
	if len(wire) < n {
		n = len(wire)
	}
	for i := 0; i < n; i++ {
		if sent[i] != wire[i] {
			diff = i
			break
		}
	}
	if diff < 0 && len(sent) != len(wire) {
		diff = n
	}
	// map the offset to the message it belongs to
	affected := -1
	if diff >= 0 {
		frames, _ := refcodec.ParseFrames(sent)
		fi := len(frames)
		for k, f := range frames {
			if diff < f.Offset+len(f.Raw) {
				fi = k
				break
			}
		}
		fi-- // frame 0 is the cleartext preamble
		affected = len(fam)
		cnt := 0
		for mi, m := range fam {
			if fi < cnt+len(m) {
				affected = mi
				break
			}
			cnt += len(m)
		}
	}
	sig := faultSig(faults)
	s.Note("faults=%+v recv=%d sent=%dB wire=%dB firstdiff=%d affected-msg=%d delivered=%d recvErr=%v blocked=%v", faults, p.Recv, len(sent), len(wire), diff, affected, len(D), recvErr, s.BlockedAt)
	for i, d := range D {
		if i >= len(S) {
			s.Violate("extra-message-delivered", sig, fmt.Sprintf("receiver returned message %d (%d bytes) but only %d were sent", i, len(d), len(S)))
			return
		}
		if !bytes.Equal(d, S[i]) {
			s.Violate("altered-message-delivered", sig, fmt.Sprintf("message %d delivered as %q, sent %q", i, d, S[i]))
			return
		}
	}
	if len(partial) > 0 {
		i := len(D)
		if i >= len(S) || !bytes.HasPrefix(S[i], partial) {
			s.Violate("altered-frame-data-delivered", sig, fmt.Sprintf("frame data %q handed out for message %d is not a prefix of what was sent", partial, i))
			return
		}
	}
	for i, d := range afterErr {
		k := len(D) + i
		if k >= len(S) || !bytes.Equal(d, S[k]) {
			s.Violate("delivered-out-of-order-after-error", sig, fmt.Sprintf("after the receive error (%v) a further read returned %q, which is not message %d of what was sent: what the application got is no longer an in-order prefix", recvErr, d, k))
			return
		}
	}
	if affected >= 0 {
		if len(D) > affected {
			s.Violate("delivered-at-or-after-tampered-message", sig,
				fmt.Sprintf("the byte stream was changed from offset %d (message %d) but the receiver delivered %d messages without error", diff, affected, len(D)))
			return
		}
		s.Probe("tamper-detected-or-stalled")
		if recvErr != nil {
			s.Probe("tamper-receive-error")
		}
	} else {
		if len(D) != len(S) {
			s.Violate("fault-free-not-delivered", sig, fmt.Sprintf("no effective change on the wire but only %d of %d messages delivered (err %v)", len(D), len(S), recvErr))
			return
		}
		if recvErr == nil {
			s.Violate("no-error-at-end-of-stream", sig, "receiver did not get an error after the sender closed")
		}
		s.Probe("no-effective-change")
	}
}

func genSingle(g *scen.Gen) {
	seed := g.Seed * 7919
	emit := func(fi int, f fault, recv int) bool {
		seed++
		return g.Emit(scen.Case{Seed: seed, Params: scen.Params(params{Family: fi, Recv: recv, Faults: []fault{f}})})
	}
	k := 0
	for fi, fam := range families {
		wl := wireLens(fam)
		nf := len(wl)
		// fault-free baseline for every receive API
		for r := 0; r < nRecv; r++ {
			seed++
			if !g.Emit(scen.Case{Seed: seed, Params: scen.Params(params{Family: fi, Recv: r})}) {
				return
			}
		}
		bitStep := 1
		if g.Quick() {
			bitStep = 7
		}
		for i := 0; i < nf; i++ {
			for bit := (fi + i) % bitStep; bit < wl[i]*8; bit += bitStep {
				k++
				if !emit(fi, fault{Kind: "flip", I: i, Bit: bit}, k%nRecv) {
					return
				}
			}
			for r := 0; r < nRecv; r++ {
				if !emit(fi, fault{Kind: "drop", I: i}, r) || !emit(fi, fault{Kind: "dup", I: i}, r) || !emit(fi, fault{Kind: "swap", I: i}, r) {
					return
				}
			}
			for j := i + 1; j < nf; j++ {
				k++
				if !emit(fi, fault{Kind: "replay", I: i, J: j}, k%nRecv) {
					return
				}
			}
			cutStep := 1
			if g.Quick() {
				cutStep = 3
			}
			for n := 0; n < wl[i]; n += cutStep {
				k++
				if !emit(fi, fault{Kind: "trunc", I: i, N: n}, k%nRecv) {
					return
				}
			}
		}
		for pos := 0; pos <= nf; pos++ {
			for _, ln := range []int{0, 1, 15, 16, 17, 32, 48} {
				for _, end := range []int{0, 1, 2, 10, 11} {
					k++
					if g.Quick() && ln != 0 && k%3 != 0 {
						continue
					}
					for r := 0; r < nRecv; r++ {
						if (ln != 0 || g.Quick()) && r != k%nRecv {
							continue
						}
						if !emit(fi, fault{Kind: "insert", I: pos, N: ln, End: end}, r) {
							return
						}
					}
				}
			}
			for r := 0; r < nRecv; r++ {
				if !emit(fi, fault{Kind: "other", I: pos}, r) {
					return
				}
			}
		}
	}
}

var scenarios = []*scen.Scenario{
	{Name: "single-fault", Enumerated: true, Gen: genSingle, Run: run},
	{Name: "multi-fault", Gen: func(g *scen.Gen) {
		for i := uint64(0); ; i++ {
			if !g.Emit(scen.Case{Seed: g.Seed*1_000_003 + i, Params: scen.Params(params{Family: -1, Recv: int(i % nRecv)})}) {
				return
			}
		}
	}, Run: run},
}

func TestScenario(t *testing.T) { scen.Main(t, "C02", scenarios) }
