// Package puppet is a small scripted implementation of the CEDAR security
// handshake as a peer sees it (written from the protocol exchange, using cedar's
// message/stream packages for framing only and none of the security package's
// logic). It runs the honest sequence unless a deviation knob says otherwise
// and records what it saw happen on the wire: that record is the ground truth
// the oracles compare cedar's reported outcome with.
package puppet

import (
	"context"
	"crypto/ecdh"
	"crypto/rand"
	"crypto/sha256"
	"encoding/base64"
	"fmt"
	"io"
	"strings"

	"golang.org/x/crypto/hkdf"

	"github.com/PelicanPlatform/classad/classad"
	"github.com/bbockelm/cedar/message"
	"github.com/bbockelm/cedar/stream"
)

const (
	DCAuthenticate = 60010
	BitClaimToBe   = 2
	BitFS          = 4
	BitToken       = 2048
	BitSSL         = 256
	BitKerberos    = 64
)

// Dev is the set of deviation knobs; the zero value is the honest peer.
type Dev struct {
	AuthAnswer     string // server: "" honest, "NO", "YES"
	EncAnswer      string // server: "" honest, "NO", "YES"
	ECDH           string // "" honest, "omit", "truncate", "random", "garbage"
	NoCommonCipher bool
	AdvertiseExtra string // server: extra method names appended to the advertised AuthMethodsList
	SelectBit      int    // server: 0 honest; otherwise the method bit(s) returned to the client
	SelectZero     bool   // server: answer 0 to the client's bitmask
	SelectSeq      []int  // server: the i-th answer to a client bitmask (overrides the above while it lasts; 0 = answer zero)
	ReturnCode     string // server post-auth ReturnCode ("" = AUTHORIZED)
	NegReturnCode  string // server negotiation-response ReturnCode ("" = none)
	PostAuthClear  bool   // server: send the post-auth ad unencrypted
	PostAuthOther  bool   // server: send the post-auth ad under an unrelated key
	PostAuthMarker bool   // server: one expression of the post-auth ad travels behind the in-band secret marker
	ClaimFail      bool   // server: reject the CLAIMTOBE claim / client: send failure indicator
	ClientAuth     string // client: level advertised for authentication ("" = as configured)
	ClientEnc      string // client: level advertised for encryption
	ClientBitmask  int    // client: bitmask sent instead of the honest one (0 honest)
	SkipKeyInstall bool   // do not install a key although encryption was agreed (sends cleartext)
}

// Record is what the puppet saw.
type Record struct {
	PeerAd        *classad.ClassAd
	AuthOffered   int    // bitmask the real client sent / the puppet client sent
	AuthSelected  int    // method bit selected
	AuthRan       string // method whose exchange ran to its successful end ("" = none)
	AuthUser      string
	KeyInstalled  bool
	Key           []byte
	PostAuth      *classad.ClassAd
	ServerAd      *classad.ClassAd
	Steps         []string
	Err           error
	AppGot        []byte // application message received after the handshake
	AppErr        error
	AppEncrypted  bool // whether AppGot arrived while the puppet's stream was decrypting
	ResumeSeen    bool
	ResumeSid     string
	DeniedByPeer  bool
	PostAuthClear bool
}

func (r *Record) step(f string, a ...any) { r.Steps = append(r.Steps, fmt.Sprintf(f, a...)) }

// DeriveKey is HKDF-SHA256(salt "htcondor", info "keygen") of the ECDH secret.
func DeriveKey(secret []byte) []byte {
	k := make([]byte, 32)
	if _, err := io.ReadFull(hkdf.New(sha256.New, secret, []byte("htcondor"), []byte("keygen")), k); err != nil {
		panic(err)
	}
	return k
}

func pubKeyField(priv *ecdh.PrivateKey, mode string) (string, bool) {
	raw := priv.PublicKey().Bytes()
	switch mode {
	case "omit":
		return "", false
	case "truncate":
		return base64.StdEncoding.EncodeToString(raw[:40]), true
	case "random":
		b := make([]byte, 65)
		rand.Read(b)
		b[0] = 4
		return base64.StdEncoding.EncodeToString(b), true
	case "garbage":
		return "!!!not-base64!!!", true
	}
	return base64.StdEncoding.EncodeToString(raw), true
}

func agree(priv *ecdh.PrivateKey, peerB64 string) []byte {
	raw, err := base64.StdEncoding.DecodeString(peerB64)
	if err != nil {
		return nil
	}
	pk, err := ecdh.P256().NewPublicKey(raw)
	if err != nil {
		return nil
	}
	sec, err := priv.ECDH(pk)
	if err != nil {
		return nil
	}
	return DeriveKey(sec)
}

// ServerOpts configures the scripted server.
type ServerOpts struct {
	Methods      []string // the server's method list, in preference order
	Authenticate bool     // honest decision: run authentication
	Encrypt      bool     // honest decision: encrypt
	Sid          string
	User         string
	Dev          Dev
	// OnMethod, if set, runs the server half of a method other than CLAIMTOBE when it
	// is selected; it returns the method name and the identity established.
	OnMethod func(ctx context.Context, st *stream.Stream, sel int) (method, user string, err error)
	// OnResume handles a resumption request; nil = reply SID_NOT_FOUND when asked.
	OnResume func(ctx context.Context, st *stream.Stream, ad *classad.ClassAd, rec *Record) error
}

func methodBit(m string) int {
	switch m {
	case "CLAIMTOBE":
		return BitClaimToBe
	case "FS":
		return BitFS
	case "TOKEN", "IDTOKENS":
		return BitToken
	case "SSL":
		return BitSSL
	case "KERBEROS":
		return BitKerberos
	}
	return 0
}

func yn(b bool) string {
	if b {
		return "YES"
	}
	return "NO"
}

// Server runs the scripted server side of a handshake on st.
func Server(ctx context.Context, st *stream.Stream, o ServerOpts) (rec *Record) {
	rec = &Record{}
	in := message.NewMessageFromStream(st)
	cmd, err := in.GetInt(ctx)
	if err != nil {
		rec.Err = fmt.Errorf("read command: %w", err)
		return
	}
	if cmd != DCAuthenticate {
		rec.Err = fmt.Errorf("unexpected command %d", cmd)
		return
	}
	ad, err := in.GetClassAd(ctx)
	if err != nil {
		rec.Err = fmt.Errorf("read client ad: %w", err)
		return
	}
	rec.PeerAd = ad
	rec.step("client ad received")
	if us, ok := ad.EvaluateAttrString("UseSession"); ok && us == "YES" {
		rec.ResumeSeen = true
		rec.ResumeSid, _ = ad.EvaluateAttrString("Sid")
		if o.OnResume != nil {
			rec.Err = o.OnResume(ctx, st, ad, rec)
			return
		}
		if want, _ := ad.EvaluateAttrBool("ResumeResponse"); want {
			r := classad.New()
			_ = r.Set("ReturnCode", "SID_NOT_FOUND")
			m := message.NewMessageForStream(st)
			_ = m.PutClassAd(ctx, r)
			_ = m.FinishMessage(ctx)
		}
		rec.Err = fmt.Errorf("resume refused")
		return
	}
	priv, _ := ecdh.P256().GenerateKey(rand.Reader)
	sad := classad.New()
	chosen := ""
	if len(o.Methods) > 0 {
		chosen = o.Methods[0]
	}
	_ = sad.Set("AuthMethods", chosen)
	advertised := strings.Join(o.Methods, ",")
	if o.Dev.AdvertiseExtra != "" {
		if advertised != "" {
			advertised += ","
		}
		advertised += o.Dev.AdvertiseExtra
	}
	_ = sad.Set("AuthMethodsList", advertised)
	cipher := "AES"
	if o.Dev.NoCommonCipher {
		cipher = "BLOWFISH"
	}
	_ = sad.Set("CryptoMethods", cipher)
	_ = sad.Set("CryptoMethodsList", cipher)
	authAns, encAns := yn(o.Authenticate), yn(o.Encrypt)
	if o.Dev.AuthAnswer != "" {
		authAns = o.Dev.AuthAnswer
	}
	if o.Dev.EncAnswer != "" {
		encAns = o.Dev.EncAnswer
	}
	_ = sad.Set("Authentication", authAns)
	_ = sad.Set("Encryption", encAns)
	_ = sad.Set("Integrity", "NO")
	_ = sad.Set("RemoteVersion", "$CondorVersion: 25.4.0 2025-10-31 BuildID: 1 $")
	if f, ok := pubKeyField(priv, o.Dev.ECDH); ok {
		_ = sad.Set("ECDHPublicKey", f)
	}
	_ = sad.Set("NegotiatedSession", true)
	_ = sad.Set("Enact", "YES")
	if o.Dev.NegReturnCode != "" {
		_ = sad.Set("ReturnCode", o.Dev.NegReturnCode)
	}
	rec.ServerAd = sad
	out := message.NewMessageForStream(st)
	if err := out.PutClassAd(ctx, sad); err != nil {
		rec.Err = err
		return
	}
	if err := out.FinishMessage(ctx); err != nil {
		rec.Err = err
		return
	}
	rec.step("server ad sent (Authentication=%s Encryption=%s)", authAns, encAns)
	if o.Dev.NegReturnCode != "" && o.Dev.NegReturnCode != "AUTHORIZED" {
		return
	}
	// authentication phase: the puppet follows the client, which decides from the answer it got
	if authAns == "YES" {
		for round := 0; ; round++ {
			bm := message.NewMessageFromStream(st)
			mask, err := bm.GetInt(ctx)
			if err != nil {
				rec.Err = fmt.Errorf("read bitmask: %w", err)
				return
			}
			rec.AuthOffered = mask
			rec.step("client bitmask %#x", mask)
			if mask == 0 {
				rec.Err = fmt.Errorf("client gave up")
				return
			}
			sel := 0
			for _, m := range o.Methods {
				if mask&methodBit(m) != 0 {
					sel = methodBit(m)
					break
				}
			}
			if o.Dev.SelectBit != 0 {
				sel = o.Dev.SelectBit
			}
			if o.Dev.SelectZero {
				sel = 0
			}
			if round < len(o.Dev.SelectSeq) {
				sel = o.Dev.SelectSeq[round]
			}
			rm := message.NewMessageForStream(st)
			_ = rm.PutInt(ctx, sel)
			if err := rm.FinishMessage(ctx); err != nil {
				rec.Err = err
				return
			}
			rec.AuthSelected = sel
			rec.step("selected %#x", sel)
			if sel == 0 || sel&(sel-1) != 0 {
				// zero, or several bits at once (not a selection): the client decides what it offers next
				continue
			}
			if sel != BitClaimToBe && o.OnMethod != nil {
				// a scenario-supplied server half of another method (e.g. a scripted FS server)
				name, user, err := o.OnMethod(ctx, st, sel)
				if err != nil {
					rec.step("scripted method %#x failed: %v", sel, err)
					rec.Err = fmt.Errorf("scripted method %#x: %w", sel, err)
					return
				}
				rec.AuthRan, rec.AuthUser = name, user
				rec.step("%s completed (scripted)", name)
				km := message.NewMessageForStream(st)
				_ = km.PutInt(ctx, 0)
				if err := km.FinishMessage(ctx); err != nil {
					rec.Err = err
					return
				}
				break
			}
			if sel != BitClaimToBe {
				// the puppet only speaks CLAIMTOBE; for any other selection it waits to see what the client does
				pm := message.NewMessageFromStream(st)
				_, err := pm.GetInt(ctx)
				rec.step("client continued after selection %#x: first read err=%v", sel, err)
				if err != nil {
					rec.Err = fmt.Errorf("client did not run selected method %#x: %w", sel, err)
					return
				}
				rec.Err = fmt.Errorf("client started method %#x which the puppet does not implement", sel)
				return
			}
			cm := message.NewMessageFromStream(st)
			status, err := cm.GetInt(ctx)
			if err != nil {
				rec.Err = fmt.Errorf("claimtobe status: %w", err)
				return
			}
			if status != 1 {
				rec.step("client signalled claim failure")
				continue
			}
			user, err := cm.GetString(ctx)
			if err != nil {
				rec.Err = err
				return
			}
			ack := 1
			if o.Dev.ClaimFail {
				ack = 0
			}
			am := message.NewMessageForStream(st)
			_ = am.PutInt(ctx, ack)
			if err := am.FinishMessage(ctx); err != nil {
				rec.Err = err
				return
			}
			if ack == 0 {
				rec.step("claim rejected")
				continue
			}
			rec.AuthRan, rec.AuthUser = "CLAIMTOBE", user
			rec.step("CLAIMTOBE completed for %q", user)
			km := message.NewMessageForStream(st)
			_ = km.PutInt(ctx, 0)
			if err := km.FinishMessage(ctx); err != nil {
				rec.Err = err
				return
			}
			break
		}
	}
	// key agreement
	clientPub, _ := ad.EvaluateAttrString("ECDHPublicKey")
	var key []byte
	if o.Dev.ECDH == "" && clientPub != "" && !o.Dev.NoCommonCipher {
		key = agree(priv, clientPub)
	}
	if key != nil && !o.Dev.SkipKeyInstall && !o.Dev.PostAuthClear {
		use := key
		if o.Dev.PostAuthOther {
			use = make([]byte, 32)
			rand.Read(use)
		}
		if err := st.SetSymmetricKey(use); err != nil {
			rec.Err = err
			return
		}
		rec.KeyInstalled, rec.Key = true, use
		rec.step("key installed")
	} else {
		st.FinalizeDigests()
		rec.PostAuthClear = true
		rec.step("no key installed: post-auth ad goes in the clear")
	}
	pa := classad.New()
	rc := "AUTHORIZED"
	if o.Dev.ReturnCode != "" {
		rc = o.Dev.ReturnCode
	}
	_ = pa.Set("ReturnCode", rc)
	sid := o.Sid
	if sid == "" {
		sid = "puppet:1:946684800:1"
	}
	_ = pa.Set("Sid", sid)
	user := o.User
	if user == "" {
		user = "unauthenticated@unmapped"
	}
	_ = pa.Set("User", user)
	vc := "60021"
	if c, ok := ad.EvaluateAttrInt("Command"); ok {
		vc = fmt.Sprint(c)
	}
	_ = pa.Set("ValidCommands", vc)
	_ = pa.Set("SessionDuration", 3600)
	_ = pa.Set("SessionLease", 1800)
	rec.PostAuth = pa
	pm := message.NewMessageForStream(st)
	if o.Dev.PostAuthMarker {
		// the same ad written item by item, its last expression sent as "ZKM" + secret
		// (marker and secret count as one expression)
		exprs := []string{fmt.Sprintf("ReturnCode = %q", rc), fmt.Sprintf("Sid = %q", sid), fmt.Sprintf("User = %q", user), fmt.Sprintf("ValidCommands = %q", vc), "SessionDuration = 3600", "SessionLease = 1800"}
		err := pm.PutInt(ctx, len(exprs))
		for i, e := range exprs {
			if err == nil && i == len(exprs)-1 {
				err = pm.PutString(ctx, "ZKM")
			}
			if err == nil {
				err = pm.PutString(ctx, e)
			}
		}
		for i := 0; i < 2 && err == nil; i++ {
			err = pm.PutString(ctx, "")
		}
		if err != nil {
			rec.Err = err
			return
		}
	} else if err := pm.PutClassAd(ctx, pa); err != nil {
		rec.Err = err
		return
	}
	if err := pm.FinishMessage(ctx); err != nil {
		rec.Err = err
		return
	}
	rec.step("post-auth ad sent (ReturnCode=%s)", rc)
	// one application message from the client
	rec.AppEncrypted = st.IsEncrypted()
	rec.AppGot, rec.AppErr = st.ReceiveCompleteMessage(ctx)
	return
}

// ClientOpts configures the scripted client.
type ClientOpts struct {
	Methods []string
	Auth    string // level advertised
	Enc     string
	Command int
	User    string
	Ciphers string
	Dev     Dev
	// OnSelect, if set, runs the client half of a method other than CLAIMTOBE when
	// the server selects it; it returns the method name and the identity used.
	OnSelect func(ctx context.Context, st *stream.Stream, sel int) (method, user string, err error)
}

// Client runs the scripted client side of a full handshake on st.
func Client(ctx context.Context, st *stream.Stream, o ClientOpts) (rec *Record) {
	rec = &Record{}
	priv, _ := ecdh.P256().GenerateKey(rand.Reader)
	ad := classad.New()
	_ = ad.Set("AuthMethods", strings.Join(o.Methods, ","))
	ciph := o.Ciphers
	if ciph == "" {
		ciph = "AES"
	}
	if o.Dev.NoCommonCipher {
		ciph = "BLOWFISH"
	}
	_ = ad.Set("CryptoMethods", ciph)
	auth, enc := o.Auth, o.Enc
	if o.Dev.ClientAuth != "" {
		auth = o.Dev.ClientAuth
	}
	if o.Dev.ClientEnc != "" {
		enc = o.Dev.ClientEnc
	}
	_ = ad.Set("Authentication", auth)
	_ = ad.Set("Encryption", enc)
	_ = ad.Set("Integrity", "OPTIONAL")
	_ = ad.Set("Command", o.Command)
	_ = ad.Set("RemoteVersion", "$CondorVersion: 25.4.0 2025-10-31 BuildID: 1 $")
	if f, ok := pubKeyField(priv, o.Dev.ECDH); ok {
		_ = ad.Set("ECDHPublicKey", f)
	}
	_ = ad.Set("NegotiatedSession", true)
	_ = ad.Set("NewSession", "YES")
	_ = ad.Set("OutgoingNegotiation", "PREFERRED")
	_ = ad.Set("Enact", "NO")
	out := message.NewMessageForStream(st)
	_ = out.PutInt(ctx, DCAuthenticate)
	if err := out.PutClassAd(ctx, ad); err != nil {
		rec.Err = err
		return
	}
	if err := out.FinishMessage(ctx); err != nil {
		rec.Err = err
		return
	}
	rec.step("client ad sent (Authentication=%s Encryption=%s)", auth, enc)
	in := message.NewMessageFromStream(st)
	sad, err := in.GetClassAd(ctx)
	if err != nil {
		rec.Err = fmt.Errorf("read server ad: %w", err)
		return
	}
	rec.ServerAd, rec.PeerAd = sad, sad
	if rc, ok := sad.EvaluateAttrString("ReturnCode"); ok && rc != "" && rc != "AUTHORIZED" {
		rec.DeniedByPeer = true
		rec.Err = fmt.Errorf("denied: %s", rc)
		return
	}
	authAns, _ := sad.EvaluateAttrString("Authentication")
	rec.step("server ad received (Authentication=%s)", authAns)
	if authAns == "YES" {
		mask := 0
		for _, m := range o.Methods {
			mask |= methodBit(m)
		}
		if o.Dev.ClientBitmask != 0 {
			mask = o.Dev.ClientBitmask
		}
		bm := message.NewMessageForStream(st)
		_ = bm.PutInt(ctx, mask)
		if err := bm.FinishMessage(ctx); err != nil {
			rec.Err = err
			return
		}
		rec.AuthOffered = mask
		rm := message.NewMessageFromStream(st)
		sel, err := rm.GetInt(ctx)
		if err != nil {
			rec.Err = fmt.Errorf("read selection: %w", err)
			return
		}
		rec.AuthSelected = sel
		rec.step("server selected %#x", sel)
		if sel != BitClaimToBe && o.OnSelect != nil {
			// a scenario-supplied method implementation (e.g. a scripted AKEP2 client)
			name, user, err := o.OnSelect(ctx, st, sel)
			if err != nil {
				rec.Err = fmt.Errorf("scripted method %#x: %w", sel, err)
				return
			}
			rec.AuthRan, rec.AuthUser = name, user
			km := message.NewMessageFromStream(st)
			if _, err := km.GetInt(ctx); err != nil {
				rec.Err = fmt.Errorf("exchangeKey: %w", err)
				return
			}
			rec.step("%s completed (scripted)", name)
			goto keyAgreement
		}
		if sel == 0 && o.Dev.ClientBitmask != 0 {
			// nothing in common with the mask that was sent: the puppet gives up (mask 0) and looks at
			// what the server does - an honest server ends the handshake; one that goes on to the key
			// exchange has "completed" an authentication that never ran
			gm := message.NewMessageForStream(st)
			_ = gm.PutInt(ctx, 0)
			_ = gm.FinishMessage(ctx)
			km := message.NewMessageFromStream(st)
			if _, err := km.GetInt(ctx); err != nil {
				rec.Err = fmt.Errorf("server selected nothing and ended the handshake: %w", err)
				return
			}
			rec.step("server selected nothing and went on to the key exchange")
			goto keyAgreement
		}
		if sel != BitClaimToBe {
			rec.Err = fmt.Errorf("server selected %#x; puppet only speaks CLAIMTOBE", sel)
			return
		}
		cm := message.NewMessageForStream(st)
		if o.Dev.ClaimFail {
			_ = cm.PutInt(ctx, 0)
			_ = cm.FinishMessage(ctx)
			rec.step("claim failure indicator sent")
			// give up
			gm := message.NewMessageFromStream(st)
			_, _ = gm.GetInt(ctx)
			rec.Err = fmt.Errorf("claim failed on purpose")
			return
		}
		user := o.User
		if user == "" {
			user = "mallory@evil"
		}
		_ = cm.PutInt(ctx, 1)
		_ = cm.PutString(ctx, user)
		if err := cm.FinishMessage(ctx); err != nil {
			rec.Err = err
			return
		}
		am := message.NewMessageFromStream(st)
		ack, err := am.GetInt(ctx)
		if err != nil || ack != 1 {
			rec.Err = fmt.Errorf("claim not acknowledged: %v", err)
			return
		}
		rec.AuthRan, rec.AuthUser = "CLAIMTOBE", user
		km := message.NewMessageFromStream(st)
		if _, err := km.GetInt(ctx); err != nil {
			rec.Err = fmt.Errorf("exchangeKey: %w", err)
			return
		}
		rec.step("CLAIMTOBE completed")
	}
keyAgreement:
	serverPub, _ := sad.EvaluateAttrString("ECDHPublicKey")
	var key []byte
	if o.Dev.ECDH == "" && serverPub != "" && !o.Dev.NoCommonCipher {
		key = agree(priv, serverPub)
	}
	if key != nil && !o.Dev.SkipKeyInstall {
		if err := st.SetSymmetricKey(key); err != nil {
			rec.Err = err
			return
		}
		rec.KeyInstalled, rec.Key = true, key
		rec.step("key installed")
	} else {
		st.FinalizeDigests()
		rec.step("no key installed")
	}
	pm := message.NewMessageFromStream(st)
	pa, err := pm.GetClassAd(ctx)
	if err != nil {
		rec.Err = fmt.Errorf("read post-auth ad: %w", err)
		return
	}
	rec.PostAuth = pa
	rec.PostAuthClear = !st.IsEncrypted()
	rec.step("post-auth ad received (stream encrypted=%v)", st.IsEncrypted())
	return
}
