// Package simnet is the simulated TCP the real cedar code talks through:
// net.Conn / net.Listener implementations whose every Read, Write, Close,
// Accept and Dial is a scheduling point of kernel.Sim, with seeded benign
// nondeterminism (segmentation, latency, short reads, send window) and
// injected faults (stall, reset, EOF, on-path frame filter).
package simnet

import (
	"context"
	"errors"
	"fmt"
	"io"
	"net"
	"os"
	"syscall"
	"time"

	"cedarsim/kernel"
)

// Addr is a simulated TCP address "ip:port".
type Addr string

func (a Addr) Network() string { return "tcp" }
func (a Addr) String() string  { return string(a) }

// ErrSimEnded is returned by every primitive once the run is torn down.
var ErrSimEnded = errors.New("simnet: simulation ended")

// Config is the benign transport nondeterminism of a connection.
type Config struct {
	MaxLatency time.Duration // per-segment latency drawn in [0,MaxLatency]
	Segment    bool          // cut writes into several segments
	ShortReads bool          // reads may return fewer bytes than available
	Window     int           // max bytes buffered per direction (<=0: unlimited)
}

// Action is what a fault hook decides for one I/O operation.
type Action int

const (
	Proceed Action = iota
	Stall          // the operation never completes (until local close / cancel)
	Reset          // the connection is reset now
	EOF            // the peer's direction is closed now (reads see EOF)
	Timeout        // a write: half of the bytes leave, then the call fails with a deadline error; the connection stays usable
)

// Op describes one I/O operation of an endpoint to a fault hook.
type Op struct {
	Kind  byte // 'R' or 'W'
	Index int  // 1-based index among this endpoint's reads+writes
	KindN int  // 1-based index among this endpoint's ops of the same kind
	Len   int
}

type segment struct {
	data []byte
	at   time.Time
}

// Filter transforms the byte stream of one direction (on-path adversary).
// It receives what the writer wrote and returns what travels on.
type Filter interface {
	// Filter may buffer; closeAfter asks the pipe to deliver out and then close
	// the direction (truncate-then-close).
	Filter(in []byte) (out []byte, closeAfter bool)
}

type pipe struct {
	inflight    []segment
	rx          []byte
	wclosed     bool
	cutByFilter bool
	reset       bool
	lastAt      time.Time
	Sent        []byte // wiretap: what the writer wrote
	Wire        []byte // wiretap: what actually travelled (after the filter)
	tap         bool
	filter      Filter
	nWritten    int64
	nRead       int64
}

func (p *pipe) buffered() int {
	n := len(p.rx)
	for _, s := range p.inflight {
		n += len(s.data)
	}
	return n
}

func (p *pipe) advance(now time.Time) {
	i := 0
	for ; i < len(p.inflight); i++ {
		if p.inflight[i].at.After(now) {
			break
		}
		p.rx = append(p.rx, p.inflight[i].data...)
	}
	if i > 0 {
		p.inflight = p.inflight[i:]
	}
}

// Net is one simulated network.
type Net struct {
	S   *kernel.Sim
	Cfg Config

	mu        kernel.HMutex
	nextConn  int
	nextPort  int
	listeners []*Listener // no Go map: see kernel.counter
	Eps       []*Endpoint
}

// New creates a network on sim s with default per-connection config cfg.
func New(s *kernel.Sim, cfg Config) *Net {
	return &Net{S: s, Cfg: cfg, nextPort: 40000}
}

// DrawConfig draws a swarm-style transport configuration from the tape.
func DrawConfig(t *kernel.Tape) Config {
	c := Config{}
	switch t.Choose("net.lat", 4) {
	case 1:
		c.MaxLatency = time.Millisecond
	case 2:
		c.MaxLatency = 50 * time.Millisecond
	case 3:
		c.MaxLatency = 2 * time.Second
	}
	c.Segment = t.Choose("net.seg", 2) == 1
	c.ShortReads = t.Choose("net.short", 2) == 1
	switch t.Choose("net.win", 4) {
	case 1:
		c.Window = 1
	case 2:
		c.Window = 64
	case 3:
		c.Window = 4096
	}
	return c
}

// Endpoint is one end of a simulated connection; it implements net.Conn.
type Endpoint struct {
	n      *Net
	Name   string
	in     *pipe
	out    *pipe
	local  Addr
	remote Addr
	peer   *Endpoint
	cfg    Config

	closed     bool
	CloseCount int
	ClosedStep uint64
	ClosedAt   time.Duration
	ops        int
	reads      int
	writes     int
	// OnOp, if set, is consulted at the start of every Read and Write.
	OnOp func(op Op) Action
	// Owner is free for scenarios (who opened this end).
	Owner string
}

// Pipe creates a connected pair (a dials b).
func (n *Net) Pipe(aName, bName string, aAddr, bAddr Addr) (*Endpoint, *Endpoint) {
	n.mu.Lock()
	defer n.mu.Unlock()
	return n.pipeLocked(aName, bName, aAddr, bAddr)
}

func (n *Net) pipeLocked(aName, bName string, aAddr, bAddr Addr) (*Endpoint, *Endpoint) {
	n.nextConn++
	if aName == "" {
		aName = fmt.Sprintf("c%da", n.nextConn)
	}
	if bName == "" {
		bName = fmt.Sprintf("c%db", n.nextConn)
	}
	ab, ba := &pipe{}, &pipe{}
	a := &Endpoint{n: n, Name: aName, in: ba, out: ab, local: aAddr, remote: bAddr, cfg: n.Cfg}
	b := &Endpoint{n: n, Name: bName, in: ab, out: ba, local: bAddr, remote: aAddr, cfg: n.Cfg}
	a.peer, b.peer = b, a
	n.Eps = append(n.Eps, a, b)
	return a, b
}

// Rewrap returns a fresh Endpoint object attached to the same pipes as e (an
// fd handed to another process). The old object must no longer be used.
func (e *Endpoint) Rewrap(name string) *Endpoint {
	e.n.mu.Lock()
	defer e.n.mu.Unlock()
	ne := &Endpoint{n: e.n, Name: name, in: e.in, out: e.out, local: e.local, remote: e.remote, peer: e.peer, cfg: e.cfg}
	e.peer.peer = ne
	e.n.Eps = append(e.n.Eps, ne)
	return ne
}

// SetConfig overrides the transport nondeterminism of this endpoint's I/O.
func (e *Endpoint) SetConfig(c Config) { e.cfg = c }

// Tap turns on byte recording for the outgoing direction of e.
func (e *Endpoint) Tap() { e.out.tap = true }

// SentBytes returns what e wrote (requires Tap).
func (e *Endpoint) SentBytes() []byte { return e.out.Sent }

// WireBytes returns what actually travelled from e to its peer (requires Tap).
func (e *Endpoint) WireBytes() []byte { return e.out.Wire }

// SetFilter installs an on-path filter on the outgoing direction of e.
func (e *Endpoint) SetFilter(f Filter) { e.out.filter = f }

// Closed reports whether this end was closed by its owner.
func (e *Endpoint) Closed() bool { return e.closed }

// Peer returns the other end.
func (e *Endpoint) Peer() *Endpoint { return e.peer }

// Ops returns the number of reads+writes started on this endpoint.
func (e *Endpoint) Ops() int { return e.ops }

// BytesOut / BytesIn are the byte counts written by / read by this endpoint.
func (e *Endpoint) BytesOut() int64 { return e.out.nWritten }
func (e *Endpoint) BytesIn() int64  { return e.in.nRead }

// Unread is the number of bytes written towards e that e has not read yet.
func (e *Endpoint) Unread() int { return e.in.buffered() }

func (e *Endpoint) LocalAddr() net.Addr                { return e.local }
func (e *Endpoint) RemoteAddr() net.Addr               { return e.remote }
func (e *Endpoint) SetDeadline(t time.Time) error      { return nil }
func (e *Endpoint) SetReadDeadline(t time.Time) error  { return nil }
func (e *Endpoint) SetWriteDeadline(t time.Time) error { return nil }

type readWait struct {
	e     *Endpoint
	stall bool
}

func (r readWait) Ready(s *kernel.Sim) bool {
	e := r.e
	if s.Ended() || e.closed || e.in.reset {
		return true
	}
	if r.stall {
		return false
	}
	e.in.advance(time.Now())
	return len(e.in.rx) > 0 || (e.in.wclosed && len(e.in.inflight) == 0)
}

type writeWait struct {
	e     *Endpoint
	stall bool
}

func (w writeWait) Ready(s *kernel.Sim) bool {
	e := w.e
	if s.Ended() || e.closed || e.out.reset || e.out.wclosed || e.peer.closed {
		return true
	}
	if w.stall {
		return false
	}
	e.out.advance(time.Now())
	return e.cfg.Window <= 0 || e.out.buffered() < e.cfg.Window
}

func opErr(op string, err error) error {
	return &net.OpError{Op: op, Net: "tcp", Err: err}
}

func (e *Endpoint) hook(kind byte, n int) Action {
	e.ops++
	k := 0
	if kind == 'R' {
		e.reads++
		k = e.reads
	} else {
		e.writes++
		k = e.writes
	}
	if e.OnOp == nil {
		return Proceed
	}
	return e.OnOp(Op{Kind: kind, Index: e.ops, KindN: k, Len: n})
}

func (e *Endpoint) doReset() {
	e.in.reset, e.out.reset = true, true
	e.in.rx, e.in.inflight = nil, nil
	e.out.rx, e.out.inflight = nil, nil
}

// Read implements net.Conn.
func (e *Endpoint) Read(p []byte) (int, error) {
	s := e.n.S
	act := e.hook('R', len(p))
	switch act {
	case Reset:
		s.Fault("reset")
		e.n.mu.Lock()
		e.doReset()
		e.n.mu.Unlock()
	case EOF:
		s.Fault("eof")
		e.n.mu.Lock()
		e.in.wclosed = true
		e.in.inflight = nil
		e.in.rx = nil
		e.n.mu.Unlock()
	case Stall:
		s.Fault("stall-read")
	}
	s.Park("R:"+e.Name, readWait{e, act == Stall})
	e.n.mu.Lock()
	defer e.n.mu.Unlock()
	if s.Ended() {
		return 0, ErrSimEnded
	}
	if e.closed {
		return 0, opErr("read", net.ErrClosed)
	}
	if e.in.reset {
		return 0, opErr("read", syscall.ECONNRESET)
	}
	avail := len(e.in.rx)
	if avail == 0 {
		return 0, io.EOF
	}
	n := len(p)
	if n > avail {
		n = avail
	}
	if e.cfg.ShortReads && n > 1 {
		switch s.T.Choose("read.short", 4) {
		case 1:
			if n <= 256 {
				n = 1
			} else {
				n = n / 16
			}
		case 2:
			n = (n + 1) / 2
		case 3:
			n = 1 + s.T.Choose("read.n", n)
		}
	}
	copy(p, e.in.rx[:n])
	e.in.rx = e.in.rx[n:]
	if len(e.in.rx) == 0 {
		e.in.rx = nil
	}
	e.in.nRead += int64(n)
	return n, nil
}

// Write implements net.Conn.
func (e *Endpoint) Write(p []byte) (int, error) {
	s := e.n.S
	act := e.hook('W', len(p))
	switch act {
	case Reset:
		s.Fault("reset")
		e.n.mu.Lock()
		e.doReset()
		e.n.mu.Unlock()
	case Stall:
		s.Fault("stall-write")
	case Timeout:
		// what a write deadline does on a socket whose buffer is full: part of the data is
		// out, the call reports a timeout, and nothing is closed
		s.Fault("write-timeout")
		s.Park("W:"+e.Name, writeWait{e, false})
		e.n.mu.Lock()
		k := len(p) / 2
		if !e.closed && !e.out.reset && !e.out.wclosed && !e.peer.closed {
			e.deliver(p[:k])
		} else {
			k = 0
		}
		e.n.mu.Unlock()
		return k, opErr("write", os.ErrDeadlineExceeded)
	}
	done := 0
	for {
		s.Park("W:"+e.Name, writeWait{e, act == Stall})
		e.n.mu.Lock()
		if s.Ended() {
			e.n.mu.Unlock()
			return done, ErrSimEnded
		}
		if e.closed {
			e.n.mu.Unlock()
			return done, opErr("write", net.ErrClosed)
		}
		if e.out.reset {
			e.n.mu.Unlock()
			return done, opErr("write", syscall.ECONNRESET)
		}
		if e.out.wclosed || e.peer.closed {
			if e.out.cutByFilter && e.out.tap {
				// the on-path filter cut the stream: what the writer tried to send still counts as sent
				e.out.Sent = append(e.out.Sent, p[done:]...)
			}
			e.n.mu.Unlock()
			return done, opErr("write", syscall.EPIPE)
		}
		n := len(p) - done
		if e.cfg.Window > 0 {
			space := e.cfg.Window - e.out.buffered()
			if space < 1 {
				space = 1
			}
			if n > space {
				n = space
			}
		}
		e.deliver(p[done : done+n])
		done += n
		e.n.mu.Unlock()
		if done >= len(p) {
			return done, nil
		}
	}
}

// deliver puts written bytes on the wire (n.mu held).
func (e *Endpoint) deliver(b []byte) {
	s := e.n.S
	o := e.out
	o.nWritten += int64(len(b))
	if o.tap {
		o.Sent = append(o.Sent, b...)
	}
	closeAfter := false
	if o.filter != nil {
		b, closeAfter = o.filter.Filter(b)
	} else {
		b = append([]byte(nil), b...)
	}
	if o.tap {
		o.Wire = append(o.Wire, b...)
	}
	now := time.Now()
	for len(b) > 0 {
		n := len(b)
		if e.cfg.Segment && n > 1 {
			switch s.T.Choose("seg.cut", 4) {
			case 1:
				if n <= 256 {
					n = 1
				} else {
					n = n / 16
				}
			case 2:
				n = (n + 1) / 2
			case 3:
				n = 1 + s.T.Choose("seg.n", n)
			}
		}
		at := now
		if e.cfg.MaxLatency > 0 {
			// latency in 8 steps of MaxLatency/8; 0 = none
			at = now.Add(time.Duration(s.T.Choose("seg.lat", 9)) * e.cfg.MaxLatency / 8)
		}
		if at.Before(o.lastAt) {
			at = o.lastAt
		}
		o.lastAt = at
		if at.After(now) {
			s.AddTimer(at)
		}
		o.inflight = append(o.inflight, segment{b[:n], at})
		b = b[n:]
	}
	if closeAfter {
		o.wclosed = true
		o.cutByFilter = true
	}
}

// Inject places raw bytes into the direction towards e's peer as if e had
// written them, bypassing e's filter (used by scripted adversaries).
func (e *Endpoint) Inject(b []byte) {
	e.n.mu.Lock()
	f := e.out.filter
	e.out.filter = nil
	e.deliver(b)
	e.out.filter = f
	e.n.mu.Unlock()
}

// Close implements net.Conn. Closing is a scheduling point.
func (e *Endpoint) Close() error {
	s := e.n.S
	s.Yield("C:" + e.Name)
	e.n.mu.Lock()
	defer e.n.mu.Unlock()
	e.CloseCount++
	if e.closed {
		return opErr("close", net.ErrClosed)
	}
	e.closed = true
	e.ClosedStep = s.Step
	e.ClosedAt = s.Now()
	e.out.wclosed = true
	return nil
}

// CloseWrite half-closes the connection: the peer reads end-of-file once it has consumed what
// was sent, while this end can still read (shutdown(SHUT_WR) on a TCP socket).
func (e *Endpoint) CloseWrite() error {
	s := e.n.S
	s.Yield("CW:" + e.Name)
	e.n.mu.Lock()
	defer e.n.mu.Unlock()
	if e.closed {
		return opErr("close", net.ErrClosed)
	}
	e.out.wclosed = true
	return nil
}

// CloseQuiet closes the endpoint without a scheduling point (harness use).
func (e *Endpoint) CloseQuiet() {
	e.n.mu.Lock()
	if !e.closed {
		e.closed = true
		e.CloseCount++
		e.ClosedStep = e.n.S.Step
		e.ClosedAt = e.n.S.Now()
		e.out.wclosed = true
	}
	e.n.mu.Unlock()
}

// ResetNow resets the connection (both directions) from outside.
func (e *Endpoint) ResetNow() {
	e.n.mu.Lock()
	e.doReset()
	e.n.mu.Unlock()
}

// Listener implements net.Listener on the simulated network.
type Listener struct {
	n       *Net
	addr    Addr
	pending []*Endpoint
	closed  bool
	Name    string
}

type acceptWait struct{ l *Listener }

func (a acceptWait) Ready(s *kernel.Sim) bool {
	return s.Ended() || a.l.closed || len(a.l.pending) > 0
}

// Listen opens a listener on addr ("ip:port"; port 0 picks a fresh port).
func (n *Net) Listen(addr string) (*Listener, error) {
	n.mu.Lock()
	defer n.mu.Unlock()
	host, port, err := net.SplitHostPort(addr)
	if err != nil {
		return nil, err
	}
	if port == "0" {
		n.nextPort++
		addr = net.JoinHostPort(host, fmt.Sprint(n.nextPort))
	}
	if l := n.listenerAt(addr); l != nil && !l.closed {
		return nil, opErr("listen", syscall.EADDRINUSE)
	}
	l := &Listener{n: n, addr: Addr(addr), Name: "L:" + addr}
	n.listeners = append(n.listeners, l)
	return l, nil
}

// listenerAt returns the most recent listener bound to addr.
func (n *Net) listenerAt(addr string) *Listener {
	for i := len(n.listeners) - 1; i >= 0; i-- {
		if string(n.listeners[i].addr) == addr {
			return n.listeners[i]
		}
	}
	return nil
}

func (l *Listener) Addr() net.Addr { return l.addr }

func (l *Listener) Accept() (net.Conn, error) {
	s := l.n.S
	s.Park("A:"+string(l.addr), acceptWait{l})
	l.n.mu.Lock()
	defer l.n.mu.Unlock()
	if s.Ended() {
		return nil, ErrSimEnded
	}
	if len(l.pending) > 0 {
		c := l.pending[0]
		l.pending = l.pending[1:]
		return c, nil
	}
	return nil, opErr("accept", net.ErrClosed)
}

func (l *Listener) Close() error {
	s := l.n.S
	s.Yield("LC:" + string(l.addr))
	l.n.mu.Lock()
	defer l.n.mu.Unlock()
	if l.closed {
		return opErr("close", net.ErrClosed)
	}
	l.closed = true
	for _, p := range l.pending {
		p.closed = true
		p.out.wclosed = true
	}
	l.pending = nil
	return nil
}

// Dial connects from a fresh local port on fromHost to addr.
func (n *Net) Dial(ctx context.Context, fromHost, addr string) (*Endpoint, error) {
	s := n.S
	s.Yield("D:" + fromHost + ">" + addr)
	if err := ctx.Err(); err != nil {
		return nil, err
	}
	n.mu.Lock()
	defer n.mu.Unlock()
	if s.Ended() {
		return nil, ErrSimEnded
	}
	l := n.listenerAt(addr)
	if l == nil || l.closed {
		return nil, opErr("dial", syscall.ECONNREFUSED)
	}
	n.nextPort++
	local := Addr(net.JoinHostPort(fromHost, fmt.Sprint(n.nextPort)))
	a, b := n.pipeLocked("", "", local, l.addr)
	l.pending = append(l.pending, b)
	return a, nil
}
