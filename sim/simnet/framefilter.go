package simnet

import "encoding/binary"

// FrameFilter is an on-path adversary that understands the 5-byte CEDAR header
// and acts on whole frames. OnFrame receives the index and raw bytes of each
// frame the writer sent and returns the raw byte strings to forward instead
// (nil drops it). Returning closeAfter truncates the stream after the output.
type FrameFilter struct {
	buf     []byte
	Index   int
	OnFrame func(idx int, raw []byte) (out [][]byte, closeAfter bool)
	Frames  [][]byte // frames seen so far (original bytes)
	// AtEnd, if set, is asked for trailing bytes when Flush is called.
	closed bool
}

// Filter implements Filter.
func (f *FrameFilter) Filter(in []byte) ([]byte, bool) {
	if f.closed {
		return nil, true
	}
	f.buf = append(f.buf, in...)
	var out []byte
	for len(f.buf) >= 5 {
		n := int(binary.BigEndian.Uint32(f.buf[1:5]))
		if len(f.buf)-5 < n {
			break
		}
		raw := append([]byte(nil), f.buf[:5+n]...)
		f.buf = f.buf[5+n:]
		f.Frames = append(f.Frames, raw)
		idx := f.Index
		f.Index++
		if f.OnFrame == nil {
			out = append(out, raw...)
			continue
		}
		res, closeAfter := f.OnFrame(idx, raw)
		for _, r := range res {
			out = append(out, r...)
		}
		if closeAfter {
			f.closed = true
			return out, true
		}
	}
	return out, false
}
