// Package hs holds helpers shared by the handshake-level scenarios: process
// identity pinning, security configurations, in-memory credentials, and a
// connected pair of real streams on the simulated network.
package hs

import (
	"crypto/ecdsa"
	"crypto/elliptic"
	"crypto/rand"
	"crypto/x509"
	"crypto/x509/pkix"
	"encoding/pem"
	"fmt"
	"math/big"
	"os"
	"path/filepath"
	"strings"
	"time"

	"cedarsim/kernel"
	"cedarsim/refcodec"
	"cedarsim/simnet"

	"github.com/bbockelm/cedar/security"
	"github.com/bbockelm/cedar/stream"
	"github.com/bbockelm/cedar/verifhook"
)

// Init pins everything process-global that a handshake depends on, so that a
// run is the same in a batch and in a fresh-process replay.
func Init() {
	verifhook.IdentFunc = func(string, int) (string, int) { return "simhost", 4242 }
	security.VerifResetSessionCounter()
	security.ClearSessionCache()
	for _, k := range []string{"SEC_TOKEN_POOL_SIGNING_KEY_FILE", "SEC_PASSWORD_DIRECTORY", "SEC_TOKEN_MAX_AGE", "CONDOR_INHERIT", "CONDOR_PRIVATE_INHERIT"} {
		os.Unsetenv(k)
	}
}

// Levels in the order used for enumeration.
var Levels = []security.SecurityLevel{security.SecurityRequired, security.SecurityPreferred, security.SecurityOptional, security.SecurityNever}

// LevelName abbreviates a level.
func LevelName(l security.SecurityLevel) string { return string(l[:3]) }

// MemCreds is an in-memory CredentialReader.
type MemCreds map[string][]byte

func (m MemCreds) ReadCredential(path string) ([]byte, error) {
	// like a filesystem, whatever spelling of the path is used
	if b, ok := m[filepath.Clean(path)]; ok {
		return b, nil
	}
	return nil, fmt.Errorf("memcreds: %s: %w", path, os.ErrNotExist)
}

// Scramble applies HTCondor's on-disk obfuscation of signing keys.
func Scramble(b []byte) []byte {
	d := []byte{0xde, 0xad, 0xbe, 0xef}
	out := make([]byte, len(b))
	for i := range b {
		out[i] = b[i] ^ d[i%4]
	}
	return out
}

// TokenWorld is a signing key held by a server and a token issued under it.
type TokenWorld struct {
	KeyID   string
	RawKey  []byte
	Creds   MemCreds
	KeyDir  string
	Issuer  string
	Subject string
}

// NewTokenWorld makes a named signing key.
func NewTokenWorld(t *kernel.Tape) *TokenWorld {
	w := &TokenWorld{KeyID: "simkey", RawKey: t.Bytes("signing-key", 32), KeyDir: "/simkeys", Issuer: "pool.sim", Subject: "alice@pool.sim", Creds: MemCreds{}}
	w.Creds[w.KeyDir+"/"+w.KeyID] = Scramble(w.RawKey)
	return w
}

// Token issues a token under the world's key.
func (w *TokenWorld) Token(iat, exp int64) string {
	return refcodec.MakeToken(w.RawKey, w.KeyID, w.Subject, w.Issuer, iat, exp, "0123456789abcdef0123456789abcdef")
}

// ServerToken fills the server-side token fields of cfg.
func (w *TokenWorld) ServerToken(cfg *security.SecurityConfig) {
	cfg.TokenSigningKeyDir = w.KeyDir
	cfg.Credentials = w.Creds
	cfg.TrustDomain = w.Issuer
	cfg.IssuerKeys = []string{w.KeyID}
}

// Cfg builds a security configuration.
func Cfg(auth, enc security.SecurityLevel, methods []security.AuthMethod, ciphers []security.CryptoMethod, cmd int) *security.SecurityConfig {
	return &security.SecurityConfig{
		AuthMethods:    methods,
		Authentication: auth,
		CryptoMethods:  ciphers,
		Encryption:     enc,
		Integrity:      security.SecurityOptional,
		Command:        cmd,
	}
}

// AES is the usual cipher list.
var AES = []security.CryptoMethod{security.CryptoAES}

// Pair is a connected client/server stream pair on a simulated network.
type Pair struct {
	Net    *simnet.Net
	CE, SE *simnet.Endpoint
	CS, SS *stream.Stream
}

// NewPair connects a client (10.0.0.1) to a server (10.0.0.2:9618) and taps both directions.
func NewPair(net *simnet.Net, n int) *Pair {
	ce, se := net.Pipe(fmt.Sprintf("cli%d", n), fmt.Sprintf("srv%d", n), simnet.Addr(fmt.Sprintf("10.0.0.1:%d", 50000+n)), "10.0.0.2:9618")
	ce.Tap()
	se.Tap()
	return &Pair{Net: net, CE: ce, SE: se, CS: stream.NewStream(ce), SS: stream.NewStream(se)}
}

// MethodsName renders a method list compactly.
func MethodsName(m []security.AuthMethod) string {
	var s []string
	for _, x := range m {
		s = append(s, string(x))
	}
	if len(s) == 0 {
		return "-"
	}
	return strings.Join(s, "+")
}

// Now is the simulated wall clock in Unix seconds (valid inside a bubble).
func Now() int64 { return timeNow().Unix() }

// SSLWorld is a throw-away CA and server certificate for the SSL method. The server
// reads its certificate and key through the in-memory credential reader; the client's
// CA bundle has to be a real file (cedar reads it with os.ReadFile), written under
// /var/tmp with a per-process name and removed by Close.
type SSLWorld struct {
	CAFile     string
	CertFile   string
	KeyFile    string
	ServerName string
	Creds      MemCreds
}

// NewSSLWorld generates the certificates (valid around the bubble's year 2000 clock).
func NewSSLWorld() (*SSLWorld, error) {
	w := &SSLWorld{CertFile: "/simssl/cert.pem", KeyFile: "/simssl/key.pem", ServerName: "server.sim", Creds: MemCreds{}}
	caKey, err := ecdsa.GenerateKey(elliptic.P256(), rand.Reader)
	if err != nil {
		return nil, err
	}
	nb, na := time.Date(1999, 1, 1, 0, 0, 0, 0, time.UTC), time.Date(2100, 1, 1, 0, 0, 0, 0, time.UTC)
	caT := &x509.Certificate{SerialNumber: big.NewInt(1), Subject: pkix.Name{CommonName: "cedarsim CA"}, NotBefore: nb, NotAfter: na, IsCA: true, BasicConstraintsValid: true, KeyUsage: x509.KeyUsageCertSign | x509.KeyUsageDigitalSignature}
	caDER, err := x509.CreateCertificate(rand.Reader, caT, caT, &caKey.PublicKey, caKey)
	if err != nil {
		return nil, err
	}
	caCert, err := x509.ParseCertificate(caDER)
	if err != nil {
		return nil, err
	}
	key, err := ecdsa.GenerateKey(elliptic.P256(), rand.Reader)
	if err != nil {
		return nil, err
	}
	tm := &x509.Certificate{SerialNumber: big.NewInt(2), Subject: pkix.Name{CommonName: w.ServerName}, DNSNames: []string{w.ServerName}, NotBefore: nb, NotAfter: na, KeyUsage: x509.KeyUsageDigitalSignature, ExtKeyUsage: []x509.ExtKeyUsage{x509.ExtKeyUsageServerAuth}}
	der, err := x509.CreateCertificate(rand.Reader, tm, caCert, &key.PublicKey, caKey)
	if err != nil {
		return nil, err
	}
	kb, err := x509.MarshalECPrivateKey(key)
	if err != nil {
		return nil, err
	}
	w.Creds[w.CertFile] = pem.EncodeToMemory(&pem.Block{Type: "CERTIFICATE", Bytes: der})
	w.Creds[w.KeyFile] = pem.EncodeToMemory(&pem.Block{Type: "EC PRIVATE KEY", Bytes: kb})
	w.CAFile = fmt.Sprintf("/var/tmp/cedarsim-ca-%d.pem", os.Getpid())
	if err := os.WriteFile(w.CAFile, pem.EncodeToMemory(&pem.Block{Type: "CERTIFICATE", Bytes: caDER}), 0o600); err != nil {
		return nil, err
	}
	return w, nil
}

// Close removes the CA file.
func (w *SSLWorld) Close() { _ = os.Remove(w.CAFile) }

// Server fills the server-side SSL fields of cfg; Client the client-side ones.
func (w *SSLWorld) Server(cfg *security.SecurityConfig) {
	cfg.CertFile, cfg.KeyFile = w.CertFile, w.KeyFile
	if cfg.Credentials == nil {
		cfg.Credentials = w.Creds
	} else if mc, ok := cfg.Credentials.(MemCreds); ok {
		for k, v := range w.Creds {
			mc[k] = v
		}
	}
}

func (w *SSLWorld) Client(cfg *security.SecurityConfig) {
	cfg.CAFile, cfg.ServerName = w.CAFile, w.ServerName
}
