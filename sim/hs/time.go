package hs

import "time"

func timeNow() time.Time { return time.Now() }
