// Package kernel is the deterministic-simulation core: decision tape,
// cooperative scheduler over a testing/synctest bubble, event log.
package kernel

import (
	"math/bits"
)

// pcg is math/rand/v2's PCG-DXSM and its bounded-integer reduction, copied so that
// no instrumented library code touches tape state: under the race detector (C17)
// the tape is used by every task in turn with no synchronisation the detector can
// see, and must stay invisible to it like the rest of the simulator.
type pcg struct{ hi, lo uint64 }

func (p *pcg) uint64() uint64 {
	const (
		mulHi = 2549297995355413924
		mulLo = 4865540595714422341
		incHi = 6364136223846793005
		incLo = 1442695040888963407
	)
	hi, lo := bits.Mul64(p.lo, mulLo)
	hi += p.hi*mulLo + p.lo*mulHi
	lo, c := bits.Add64(lo, incLo, 0)
	hi, _ = bits.Add64(hi, incHi, c)
	p.lo, p.hi = lo, hi
	const cheapMul = 0xda942042e4dd58b5
	hi ^= hi >> 32
	hi *= cheapMul
	hi ^= hi >> 48
	hi *= (lo | 1)
	return hi
}

func (p *pcg) uint32() uint32 { return uint32(p.uint64() >> 32) }

// intN is rand.Rand.IntN for 0 < n < 2^32.
func (p *pcg) intN(n int) int {
	un := uint32(n)
	if un&(un-1) == 0 {
		return int(uint32(p.uint64()) & (un - 1))
	}
	prod := uint64(p.uint32()) * uint64(un)
	low := uint32(prod)
	if low < un {
		thresh := -un % un
		for low < thresh {
			prod = uint64(p.uint32()) * uint64(un)
			low = uint32(prod)
		}
	}
	return int(prod >> 32)
}

// Tape is the single source of every nondeterministic decision of a run.
// In generate mode values come from a PCG seeded with the run's seed and are
// recorded; in replay mode they are read back (exhausted tape yields 0).
// Encoding convention: 0 is always the benign choice.
type Tape struct {
	rng     *pcg
	replay  []uint32
	pos     int
	Replay  bool
	Rec     []uint32
	Labels  []string
	KeepLbl bool
}

// NewTape returns a generating tape for seed.
func NewTape(seed uint64) *Tape {
	return &Tape{rng: &pcg{hi: seed, lo: 0x9e3779b97f4a7c15 ^ seed}}
}

// NewReplayTape returns a tape replaying vals.
func NewReplayTape(vals []uint32) *Tape {
	return &Tape{replay: vals, Replay: true}
}

func (t *Tape) draw(label string, n int) int {
	var v uint32
	if t.Replay {
		if t.pos < len(t.replay) {
			v = t.replay[t.pos]
		}
		t.pos++
		if n > 0 {
			v %= uint32(n)
		}
	} else {
		v = uint32(t.rng.intN(n))
	}
	t.Rec = append(t.Rec, v)
	if t.KeepLbl {
		t.Labels = append(t.Labels, label)
	}
	return int(v)
}

// Choose returns a value in [0,n). n<=1 consumes nothing.
func (t *Tape) Choose(label string, n int) int {
	if n <= 1 {
		return 0
	}
	return t.draw(label, n)
}

// Chance is true with probability num/den; the tape value 0 means false.
func (t *Tape) Chance(label string, num, den int) bool {
	if num <= 0 {
		return false
	}
	if num >= den {
		return true
	}
	return t.draw(label, den) >= den-num
}

// Range returns a value in [lo,hi] (inclusive); tape value 0 means lo.
func (t *Tape) Range(label string, lo, hi int) int {
	if hi <= lo {
		return lo
	}
	return lo + t.draw(label, hi-lo+1)
}

// Pick returns one of the listed values; tape value 0 means the first.
func Pick[T any](t *Tape, label string, vals ...T) T {
	return vals[t.Choose(label, len(vals))]
}

// Bytes fills a deterministic pseudo-random byte slice of length n derived
// from one tape draw (so shrinking does not have to shrink n values).
func (t *Tape) Bytes(label string, n int) []byte {
	s := uint64(t.draw(label, 1<<30))
	out := make([]byte, n)
	x := s*0x9e3779b97f4a7c15 + 0x1234567
	for i := range out {
		x ^= x << 13
		x ^= x >> 7
		x ^= x << 17
		out[i] = byte(x >> 24)
	}
	return out
}
