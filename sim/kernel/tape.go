// Package kernel is the deterministic-simulation core: decision tape,
// cooperative scheduler over a testing/synctest bubble, event log.
package kernel

import (
	"math/rand/v2"
)

// Tape is the single source of every nondeterministic decision of a run.
// In generate mode values come from a PCG seeded with the run's seed and are
// recorded; in replay mode they are read back (exhausted tape yields 0).
// Encoding convention: 0 is always the benign choice.
type Tape struct {
	rng     *rand.Rand
	replay  []uint32
	pos     int
	Replay  bool
	Rec     []uint32
	Labels  []string
	KeepLbl bool
}

// NewTape returns a generating tape for seed.
func NewTape(seed uint64) *Tape {
	return &Tape{rng: rand.New(rand.NewPCG(seed, 0x9e3779b97f4a7c15^seed))}
}

// NewReplayTape returns a tape replaying vals.
func NewReplayTape(vals []uint32) *Tape {
	return &Tape{replay: vals, Replay: true}
}

func (t *Tape) draw(label string, n int) int {
	var v uint32
	if t.Replay {
		if t.pos < len(t.replay) {
			v = t.replay[t.pos]
		}
		t.pos++
		if n > 0 {
			v %= uint32(n)
		}
	} else {
		v = uint32(t.rng.IntN(n))
	}
	t.Rec = append(t.Rec, v)
	if t.KeepLbl {
		t.Labels = append(t.Labels, label)
	}
	return int(v)
}

// Choose returns a value in [0,n). n<=1 consumes nothing.
func (t *Tape) Choose(label string, n int) int {
	if n <= 1 {
		return 0
	}
	return t.draw(label, n)
}

// Chance is true with probability num/den; the tape value 0 means false.
func (t *Tape) Chance(label string, num, den int) bool {
	if num <= 0 {
		return false
	}
	if num >= den {
		return true
	}
	return t.draw(label, den) >= den-num
}

// Range returns a value in [lo,hi] (inclusive); tape value 0 means lo.
func (t *Tape) Range(label string, lo, hi int) int {
	if hi <= lo {
		return lo
	}
	return lo + t.draw(label, hi-lo+1)
}

// Pick returns one of the listed values; tape value 0 means the first.
func Pick[T any](t *Tape, label string, vals ...T) T {
	return vals[t.Choose(label, len(vals))]
}

// Bytes fills a deterministic pseudo-random byte slice of length n derived
// from one tape draw (so shrinking does not have to shrink n values).
func (t *Tape) Bytes(label string, n int) []byte {
	s := uint64(t.draw(label, 1<<30))
	out := make([]byte, n)
	x := s*0x9e3779b97f4a7c15 + 0x1234567
	for i := range out {
		x ^= x << 13
		x ^= x >> 7
		x ^= x << 17
		out[i] = byte(x >> 24)
	}
	return out
}
