package kernel

import (
	"fmt"
	"hash/fnv"
	"runtime/debug"
	"sort"
	"sync"
	"testing/synctest"
	"time"
)

// Readier is a parked primitive: the scheduler asks whether it can complete now.
type Readier interface {
	Ready(s *Sim) bool
}

type waiter struct {
	key   string
	r     Readier
	grant chan struct{}
	seq   uint64
	owner string // task that parked here (see Sim.Current)
}

// Task is a named goroutine running real code under the simulator.
type Task struct {
	Name     string
	Done     bool
	Panic    any
	Stack    string
	DoneAt   time.Time
	DoneStep uint64
	sim      *Sim
}

// Violation is one property violation observed in a run.
type Violation struct {
	Class string `json:"class"`
	Sig   string `json:"sig"`
	Msg   string `json:"msg"`
}

// Sim is one simulated run. All methods must be called from inside the bubble.
type Sim struct {
	T *Tape

	mu       HMutex
	waiters  []*waiter
	wake     chan struct{}
	tasks    []*Task
	ended    bool
	arrivals uint64
	current  string // name of the task the scheduler released last
	raceTok  int    // address used for end-of-run happens-before edges under the race detector

	Step      uint64
	MaxSteps  uint64
	Quantum   time.Duration // idle wait when no simulator timer is pending
	IdleMax   int           // consecutive idle quanta before the run is declared quiescent
	MaxVTime  time.Duration // cap on simulated time
	Start     time.Time
	timers    []time.Time // pending simulator deadlines (sleepers, deliveries)
	TimerHook func(now time.Time) (next time.Time, ok bool)

	hash       uint64
	Trace      []string
	TraceOn    bool
	TraceMax   int
	SchedForks int // scheduling decisions with >1 enabled
	Faults     map[string]int // written from the root goroutine only; tasks use Fault()/Probe()
	Probes     map[string]int
	faultC     counter
	probeC     counter
	Violations []Violation
	Quiescent  bool
	EndAt      time.Duration // simulated time at the end of the run
	Overrun    bool
	BlockedAt  []string // keys of primitives still parked when the run ended
	PostRun    func()   // run by the driver after the bubble has ended (real clock, real goroutines)
	Notes      []string
}

const fnvOff = 14695981039346656037
const fnvPrime = 1099511628211

// NewSim builds a run over tape t.
func NewSim(t *Tape) *Sim {
	return &Sim{
		T:        t,
		wake:     make(chan struct{}, 1),
		MaxSteps: 2_000_000,
		Quantum:  10 * time.Minute,
		IdleMax:  2,
		MaxVTime: 48 * time.Hour,
		Start:    time.Now(),
		hash:     fnvOff,
		TraceMax: 200000,
		Faults:   map[string]int{},
		Probes:   map[string]int{},
	}
}

// Log records an event in the run's hash (and trace when enabled). It never
// draws from the tape and never reads a real clock.
func (s *Sim) Log(ev string) {
	s.mu.Lock()
	s.logLocked(ev)
	s.mu.Unlock()
}

func (s *Sim) logLocked(ev string) {
	h := s.hash
	for i := 0; i < len(ev); i++ {
		h ^= uint64(ev[i])
		h *= fnvPrime
	}
	h ^= 0xff
	h *= fnvPrime
	s.hash = h
	if s.TraceOn && len(s.Trace) < s.TraceMax {
		s.Trace = append(s.Trace, fmt.Sprintf("%d t=%s %s", s.Step, time.Since(s.Start), ev))
	}
}

// Hash is the digest of the event log so far.
func (s *Sim) Hash() uint64 { return s.hash }

// Fault counts a fault that actually fired.
func (s *Sim) Fault(kind string) {
	s.mu.Lock()
	s.faultC.inc(kind)
	s.logLocked("fault:" + kind)
	s.mu.Unlock()
}

// Probe counts a reached branch of interest.
func (s *Sim) Probe(name string) {
	s.mu.Lock()
	s.probeC.inc(name)
	s.mu.Unlock()
}

// Violate records a property violation. sig identifies the specific failing
// shape (input class / call site), not the seed.
func (s *Sim) Violate(class, sig, msg string) {
	s.mu.Lock()
	s.Violations = append(s.Violations, Violation{class, sig, msg})
	s.logLocked("VIOLATION " + class + "/" + sig)
	s.mu.Unlock()
}

// Note attaches free text to the run (shown in replay traces).
func (s *Sim) Note(format string, a ...any) {
	s.mu.Lock()
	if len(s.Notes) < 200 {
		s.Notes = append(s.Notes, fmt.Sprintf(format, a...))
	}
	s.mu.Unlock()
}

// Ended reports whether the run is being torn down.
func (s *Sim) Ended() bool { return s.ended }

// Now is the simulated time since the start of the run.
func (s *Sim) Now() time.Duration { return time.Since(s.Start) }

// Park blocks the calling goroutine until the scheduler selects it. key is the
// canonical identity of the primitive (independent of arrival order).
func (s *Sim) Park(key string, r Readier) { s.parkAs("", key, r) }

// Current names the task that is running: tasks run one at a time, so it is the
// task the scheduler released last. (A goroutine the code under test started by
// itself is attributed to the task that was running when it first parked.)
func (s *Sim) Current() string { return s.current }

func (s *Sim) parkAs(owner, key string, r Readier) {
	w := &waiter{key: key, r: r, grant: make(chan struct{}), owner: owner}
	s.mu.Lock()
	if w.owner == "" {
		w.owner = s.current
	}
	if s.ended {
		// no scheduler is running (between phases or after the run): do not block
		s.mu.Unlock()
		return
	}
	s.arrivals++
	w.seq = s.arrivals
	s.waiters = append(s.waiters, w)
	s.mu.Unlock()
	raceOff() // the hand-off must not order tasks for the race detector
	select {
	case s.wake <- struct{}{}:
	default:
	}
	<-w.grant
	raceOn()
}

type always struct{}

func (always) Ready(*Sim) bool { return true }

// Yield is a pure scheduling point.
func (s *Sim) Yield(key string) { s.Park(key, always{}) }

type sleeper struct{ at time.Time }

func (sl sleeper) Ready(s *Sim) bool { return s.ended || !time.Now().Before(sl.at) }

// Sleep advances simulated time for the calling task by d.
func (s *Sim) Sleep(key string, d time.Duration) {
	at := time.Now().Add(d)
	s.AddTimer(at)
	s.Park("sleep:"+key, sleeper{at})
}

// AddTimer tells the scheduler that something becomes ready at t.
func (s *Sim) AddTimer(t time.Time) {
	s.mu.Lock()
	s.timers = append(s.timers, t)
	s.mu.Unlock()
}

// Go starts a task. The task parks once before running so that start order is
// a scheduler decision.
func (s *Sim) Go(name string, fn func()) *Task {
	tk := &Task{Name: name, sim: s}
	s.mu.Lock()
	s.ended = false // starting a task after a finished Run opens the next phase
	s.tasks = append(s.tasks, tk)
	s.mu.Unlock()
	go func() {
		defer func() {
			if r := recover(); r != nil {
				tk.Panic = r
				tk.Stack = string(debug.Stack())
			}
			raceReleaseMerge(&s.raceTok) // what the task did happens before whatever follows Run
			s.mu.Lock()
			tk.Done = true
			tk.DoneAt = time.Now()
			tk.DoneStep = s.Step
			s.logLocked("done:" + name)
			s.mu.Unlock()
			raceOff()
			select {
			case s.wake <- struct{}{}:
			default:
			}
			raceOn()
		}()
		s.parkAs(name, "start:"+name, always{})
		fn()
	}()
	return tk
}

func (s *Sim) allDone() bool {
	for _, t := range s.tasks {
		if !t.Done {
			return false
		}
	}
	return true
}

// Run drives the scheduler until every task has finished, the run is
// quiescent, or a cap is hit; then tears the run down. It must be called from
// the bubble's root goroutine after the tasks were started with Go.
func (s *Sim) Run() {
	s.mu.Lock()
	s.ended = false // a scenario may run several phases in one bubble
	s.Quiescent = false
	s.mu.Unlock()
	done := make(chan struct{})
	go func() {
		s.loop()
		s.teardown()
		close(done)
	}()
	<-done
	raceAcquire(&s.raceTok)
}

func (s *Sim) loop() {
	idle := 0
	for {
		hiddenWait()
		s.mu.Lock()
		if s.allDone() {
			s.mu.Unlock()
			return
		}
		if s.Step >= s.MaxSteps || time.Since(s.Start) > s.MaxVTime {
			s.Overrun = true
			s.mu.Unlock()
			return
		}
		now := time.Now()
		// drop expired timers, find next
		var next time.Time
		kept := s.timers[:0]
		for _, t := range s.timers {
			if t.After(now) {
				kept = append(kept, t)
				if next.IsZero() || t.Before(next) {
					next = t
				}
			}
		}
		s.timers = kept
		var enabled []*waiter
		for _, w := range s.waiters {
			if w.r.Ready(s) {
				enabled = append(enabled, w)
			}
		}
		if len(enabled) > 0 {
			idle = 0
			sort.SliceStable(enabled, func(i, j int) bool { return enabled[i].key < enabled[j].key })
			i := 0
			if len(enabled) > 1 {
				s.SchedForks++
				i = s.T.Choose("sched", len(enabled))
			}
			w := enabled[i]
			for j, x := range s.waiters {
				if x == w {
					// (element-wise: the runtime's bulk copy of pointer elements carries race
					// detector hooks even for un-instrumented callers; see counter)
					for k := j; k+1 < len(s.waiters); k++ {
						s.waiters[k] = s.waiters[k+1]
					}
					s.waiters[len(s.waiters)-1] = nil
					s.waiters = s.waiters[:len(s.waiters)-1]
					break
				}
			}
			s.Step++
			s.current = w.owner
			if s.TraceOn && len(enabled) > 1 && len(s.Trace) < s.TraceMax { // trace only: never part of the hash
				ks := ""
				for _, x := range enabled {
					ks += " " + x.key
				}
				s.Trace = append(s.Trace, fmt.Sprintf("%d choice %d of:%s", s.Step, i, ks))
			}
			s.logLocked("run:" + w.key)
			s.mu.Unlock()
			hiddenClose(w.grant)
			continue
		}
		s.mu.Unlock()
		// Nothing can run now: let simulated time pass.
		d := s.Quantum
		if !next.IsZero() {
			d = next.Sub(now)
			idle = 0
		} else {
			idle++
			if idle > s.IdleMax {
				s.Quiescent = true
				return
			}
		}
		tm := time.NewTimer(d) // (outside the hidden region: library one-time initialisation must stay visible)
		raceOff()
		select {
		case <-s.wake:
			tm.Stop()
		case <-tm.C:
		}
		raceOn()
	}
}

func (s *Sim) teardown() {
	s.mu.Lock()
	s.ended = true
	s.EndAt = time.Since(s.Start)
	for _, w := range s.waiters {
		s.BlockedAt = append(s.BlockedAt, w.key)
	}
	sort.Strings(s.BlockedAt)
	s.mu.Unlock()
	// Release the parked goroutines one at a time, in canonical order, so that what
	// they do on the way out (close connections, log task completion) happens in the
	// same order whatever the number of processors.
	for i := 0; i < 1000000; i++ {
		hiddenWait()
		s.mu.Lock()
		if len(s.waiters) == 0 {
			s.mu.Unlock()
			return
		}
		sort.SliceStable(s.waiters, func(a, b int) bool { return s.waiters[a].key < s.waiters[b].key })
		w := s.waiters[0]
		s.waiters = s.waiters[1:]
		s.mu.Unlock()
		hiddenClose(w.grant)
	}
}

// counter counts named events without a Go map: map operations carry race-detector
// hooks inside the runtime even when the calling package is compiled without
// instrumentation, and simulator state must stay invisible to the detector (C17).
type counter struct {
	k []string
	v []int
}

func (c *counter) inc(name string) {
	for i, k := range c.k {
		if k == name {
			c.v[i]++
			return
		}
	}
	c.k = append(c.k, name)
	c.v = append(c.v, 1)
}

func (c *counter) mergeInto(m map[string]int) map[string]int {
	out := map[string]int{}
	for k, v := range m {
		out[k] = v
	}
	for i, k := range c.k {
		out[k] += c.v[i]
	}
	return out
}

// AllFaults / AllProbes return the fault and probe counts of the run (call after Run).
func (s *Sim) AllFaults() map[string]int { return s.faultC.mergeInto(s.Faults) }
func (s *Sim) AllProbes() map[string]int { return s.probeC.mergeInto(s.Probes) }

// HMutex is a mutex whose acquire/release edges are hidden from the race
// detector: the simulator's own locking must not order the tasks it serialises.
type HMutex struct{ mu sync.Mutex }

func (m *HMutex) Lock()   { raceOff(); m.mu.Lock(); raceOn() }
func (m *HMutex) Unlock() { raceOff(); m.mu.Unlock(); raceOn() }

func hiddenWait() { raceOff(); synctest.Wait(); raceOn() }

func hiddenClose(c chan struct{}) { raceOff(); close(c); raceOn() }

// Tasks returns the tasks started so far.
func (s *Sim) Tasks() []*Task { return s.tasks }

// HashString folds arbitrary text to 64 bits (for distinct counting).
func HashString(x string) uint64 {
	h := fnv.New64a()
	h.Write([]byte(x))
	return h.Sum64()
}
