//go:build race

package kernel

import (
	"runtime"
	"unsafe"
)

// RaceBuild reports whether the race detector is compiled in.
const RaceBuild = true

func raceOff() { runtime.RaceDisable() }
func raceOn()  { runtime.RaceEnable() }

// RaceOff/RaceOn hide simulator hand-offs from the race detector so that a
// serialising scheduler does not order the tasks it serialises.
func RaceOff() { runtime.RaceDisable() }
func RaceOn()  { runtime.RaceEnable() }

func raceReleaseMerge(p *int) { runtime.RaceReleaseMerge(unsafe.Pointer(p)) }
func raceAcquire(p *int)      { runtime.RaceAcquire(unsafe.Pointer(p)) }
