//go:build !race

package kernel

// RaceBuild reports whether the race detector is compiled in.
const RaceBuild = false

func raceOff() {}
func raceOn()  {}

func RaceOff() {}
func RaceOn()  {}

func raceReleaseMerge(p *int) {}
func raceAcquire(p *int)      {}
