package refcodec

import (
	"encoding/binary"
	"fmt"
)

// Field is one element of a cleartext typed message: an 8-byte big-endian
// integer, a NUL-terminated string, or raw bytes whose length was announced by
// the preceding integer.
type Field struct {
	Name string
	Kind byte // 'i' int, 's' string, 'b' bytes (length = value of the preceding int field)
	Int  int64
	Data []byte
}

// Layouts of the three TOKEN (AKEP2) messages as they appear in cleartext.
var (
	AKEP2Step1 = []Field{{Name: "status", Kind: 'i'}, {Name: "client-id-len", Kind: 'i'}, {Name: "client-id", Kind: 's'}, {Name: "token", Kind: 's'}, {Name: "ra-len", Kind: 'i'}, {Name: "ra", Kind: 'b'}}
	AKEP2Step2 = []Field{{Name: "status", Kind: 'i'}, {Name: "client-id-len", Kind: 'i'}, {Name: "client-id-echo", Kind: 's'}, {Name: "server-id-len", Kind: 'i'}, {Name: "server-id", Kind: 's'}, {Name: "ra-len", Kind: 'i'}, {Name: "ra-echo", Kind: 'b'}, {Name: "rb-len", Kind: 'i'}, {Name: "rb", Kind: 'b'}, {Name: "mac-len", Kind: 'i'}, {Name: "server-mac", Kind: 'b'}}
	AKEP2Step3 = []Field{{Name: "status", Kind: 'i'}, {Name: "client-id-len", Kind: 'i'}, {Name: "client-id", Kind: 's'}, {Name: "rb-len", Kind: 'i'}, {Name: "rb-echo", Kind: 'b'}, {Name: "mac-len", Kind: 'i'}, {Name: "client-mac", Kind: 'b'}}
)

// ParseFields decodes payload according to layout.
func ParseFields(payload []byte, layout []Field) ([]Field, error) {
	out := make([]Field, 0, len(layout))
	off := 0
	var lastInt int64
	for _, f := range layout {
		switch f.Kind {
		case 'i':
			if len(payload)-off < 8 {
				return nil, fmt.Errorf("short int %s", f.Name)
			}
			f.Int = int64(binary.BigEndian.Uint64(payload[off:]))
			lastInt = f.Int
			off += 8
		case 's':
			end := off
			for end < len(payload) && payload[end] != 0 {
				end++
			}
			if end >= len(payload) {
				return nil, fmt.Errorf("unterminated string %s", f.Name)
			}
			f.Data = append([]byte(nil), payload[off:end]...)
			off = end + 1
		case 'b':
			n := int(lastInt)
			if n < 0 || len(payload)-off < n {
				return nil, fmt.Errorf("short bytes %s", f.Name)
			}
			f.Data = append([]byte(nil), payload[off:off+n]...)
			off += n
		}
		out = append(out, f)
	}
	if off != len(payload) {
		return nil, fmt.Errorf("%d trailing bytes", len(payload)-off)
	}
	return out, nil
}

// SerializeFields is the inverse of ParseFields (lengths are written as given).
func SerializeFields(fs []Field) []byte {
	var b []byte
	for _, f := range fs {
		switch f.Kind {
		case 'i':
			var x [8]byte
			binary.BigEndian.PutUint64(x[:], uint64(f.Int))
			b = append(b, x[:]...)
		case 's':
			b = append(append(b, f.Data...), 0)
		case 'b':
			b = append(b, f.Data...)
		}
	}
	return b
}
