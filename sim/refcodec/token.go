package refcodec

import (
	"crypto/hmac"
	"crypto/sha256"
	"encoding/base64"
	"encoding/json"
	"fmt"
	"io"
	"strings"

	"golang.org/x/crypto/hkdf"
)

// TokenSignature is the IDTOKEN signature rule as stated by the property and
// HTCondor's format: HKDF-SHA256(key, salt "htcondor", info "master jwt") ->
// 32-byte key; HMAC-SHA256 over "header.payload".
func TokenSignature(rawKey []byte, signed string) []byte {
	k := make([]byte, 32)
	if _, err := io.ReadFull(hkdf.New(sha256.New, rawKey, []byte("htcondor"), []byte("master jwt")), k); err != nil {
		panic(err)
	}
	m := hmac.New(sha256.New, k)
	m.Write([]byte(signed))
	return m.Sum(nil)
}

// NoExp as the exp argument of MakeToken omits the claim.
const NoExp = int64(-1 << 62)

// MakeToken issues a token under rawKey.
func MakeToken(rawKey []byte, kid, sub, iss string, iat, exp int64, jti string) string {
	hdr, _ := json.Marshal(map[string]string{"alg": "HS256", "typ": "JWT", "kid": kid})
	pl := map[string]any{"sub": sub, "jti": jti, "iat": iat, "exp": exp}
	if exp == NoExp {
		delete(pl, "exp") // a token that carries no expiry: only its age can end it
	}
	if iss != "" {
		pl["iss"] = iss
	}
	plj, _ := json.Marshal(pl)
	signed := base64.RawURLEncoding.EncodeToString(hdr) + "." + base64.RawURLEncoding.EncodeToString(plj)
	return signed + "." + base64.RawURLEncoding.EncodeToString(TokenSignature(rawKey, signed))
}

// TokenView is what the reference can say about a token string.
type TokenView struct {
	Header, Claims map[string]any
	Signed         string
	Sig            []byte
	WellFormed     bool
	Err            string
}

// ParseToken decodes a token without judging it.
func ParseToken(tok string) TokenView {
	v := TokenView{}
	parts := strings.Split(tok, ".")
	if len(parts) != 3 {
		v.Err = "not three segments"
		return v
	}
	dec := func(s string) ([]byte, error) { return base64.RawURLEncoding.DecodeString(strings.TrimRight(s, "=")) }
	hb, err := dec(parts[0])
	if err != nil {
		v.Err = "header base64"
		return v
	}
	pb, err := dec(parts[1])
	if err != nil {
		v.Err = "payload base64"
		return v
	}
	sb, err := dec(parts[2])
	if err != nil {
		v.Err = "signature base64"
		return v
	}
	if json.Unmarshal(hb, &v.Header) != nil || json.Unmarshal(pb, &v.Claims) != nil {
		v.Err = "json"
		return v
	}
	v.Signed = parts[0] + "." + parts[1]
	v.Sig = sb
	v.WellFormed = true
	return v
}

func num(m map[string]any, k string) (int64, bool) {
	switch x := m[k].(type) {
	case float64:
		return int64(x), true
	case int64:
		return x, true
	}
	return 0, false
}

// Judge says whether a verifier holding keys (kid -> raw key) may accept the
// token at time now with the given maximum age (seconds; 0 = no age limit).
// It returns (mayAccept, reason).
func (v TokenView) Judge(keys map[string][]byte, now, maxAge int64) (bool, string) {
	if !v.WellFormed {
		return false, "malformed: " + v.Err
	}
	kid, _ := v.Header["kid"].(string)
	if kid == "" {
		kid = "POOL" // HTCondor: a token naming no key was issued under the pool key
	}
	key, ok := keys[kid]
	if !ok {
		return false, fmt.Sprintf("unknown key id %q", kid)
	}
	if !hmac.Equal(TokenSignature(key, v.Signed), v.Sig) {
		return false, "signature does not verify under the named key"
	}
	if exp, ok := num(v.Claims, "exp"); ok && now >= exp {
		return false, "expired"
	}
	if iat, ok := num(v.Claims, "iat"); ok && maxAge > 0 && now-iat > maxAge {
		return false, "too old"
	}
	return true, "valid"
}
