// Package refcodec holds small reference implementations written from the
// property statements (never by calling cedar): CEDAR framing, the AES-256-GCM
// frame format, handshake digests. They are the oracles' view of the wire.
package refcodec

import (
	"crypto/aes"
	"crypto/cipher"
	"crypto/sha256"
	"encoding/binary"
	"errors"
	"fmt"
)

// Frame is one CEDAR frame as seen on the wire.
type Frame struct {
	End     byte
	Payload []byte // wire payload (ciphertext when protected)
	Raw     []byte // header + payload
	Offset  int    // byte offset of the header in the parsed stream
}

// Header returns the 5-byte header.
func (f Frame) Header() []byte { return f.Raw[:5] }

// ParseFrames splits wire bytes into complete frames; rest is the unparsed tail.
func ParseFrames(wire []byte) (frames []Frame, rest []byte) {
	off := 0
	for len(wire)-off >= 5 {
		n := int(binary.BigEndian.Uint32(wire[off+1 : off+5]))
		if n < 0 || len(wire)-off-5 < n {
			break
		}
		frames = append(frames, Frame{End: wire[off], Payload: wire[off+5 : off+5+n], Raw: wire[off : off+5+n], Offset: off})
		off += 5 + n
	}
	return frames, wire[off:]
}

// MakeFrame builds a cleartext frame.
func MakeFrame(end byte, payload []byte) []byte {
	b := make([]byte, 5+len(payload))
	b[0] = end
	binary.BigEndian.PutUint32(b[1:5], uint32(len(payload)))
	copy(b[5:], payload)
	return b
}

// Digest is the running SHA-256 over cleartext header+payload of one direction.
type Digest struct {
	h    interface{ Sum([]byte) []byte }
	w    interface{ Write([]byte) (int, error) }
	used bool
}

// NewDigest returns an empty digest.
func NewDigest() *Digest {
	h := sha256.New()
	return &Digest{h: h, w: h}
}

// Add feeds one cleartext frame (header + payload).
func (d *Digest) Add(raw []byte) {
	d.w.Write(raw)
	d.used = true
}

// Final is the 32-byte value used in the first frame's AAD: the hash, or all
// zeros for a direction in which nothing was sent in the clear.
func (d *Digest) Final() []byte {
	if !d.used {
		return make([]byte, 32)
	}
	return d.h.Sum(nil)
}

// GCMDir is the reference state of one protected direction.
type GCMDir struct {
	aead     cipher.AEAD
	BaseIV   [16]byte
	HaveIV   bool
	Counter  uint32 // frames processed so far in this direction
	FirstAAD []byte // writerDigest||readerDigest (64 bytes), for the first frame
	Nonces   map[[16]byte]int
}

// NewGCMDir builds a direction for key. firstAAD is the 64-byte digest prefix
// as the *writer* of this direction orders it (own sent digest, then own
// received digest).
func NewGCMDir(key []byte, firstAAD []byte) (*GCMDir, error) {
	if len(key) != 32 {
		return nil, fmt.Errorf("refcodec: key must be 32 bytes")
	}
	blk, err := aes.NewCipher(key)
	if err != nil {
		return nil, err
	}
	a, err := cipher.NewGCMWithNonceSize(blk, 16)
	if err != nil {
		return nil, err
	}
	if firstAAD == nil {
		firstAAD = make([]byte, 64)
	}
	return &GCMDir{aead: a, FirstAAD: firstAAD, Nonces: map[[16]byte]int{}}, nil
}

func (d *GCMDir) nonce() [16]byte {
	n := d.BaseIV
	w := binary.BigEndian.Uint32(n[:4]) + d.Counter
	binary.BigEndian.PutUint32(n[:4], w)
	return n
}

func (d *GCMDir) aad(header []byte) []byte {
	if d.Counter == 0 {
		return append(append([]byte(nil), d.FirstAAD...), header...)
	}
	return append([]byte(nil), header...)
}

// ErrNonceReuse is returned when a (key, direction, nonce) repeats.
var ErrNonceReuse = errors.New("refcodec: nonce reused")

// Open authenticates and decrypts one wire frame of this direction under the
// documented format. It also records the nonce and reports reuse.
func (d *GCMDir) Open(f Frame) ([]byte, error) {
	p := f.Payload
	if d.Counter == 0 {
		if len(p) < 16 {
			return nil, fmt.Errorf("first protected frame too short for IV (%d bytes)", len(p))
		}
		copy(d.BaseIV[:], p[:16])
		d.HaveIV = true
		p = p[16:]
	}
	if len(p) < 16 {
		return nil, fmt.Errorf("protected frame too short for tag (%d bytes)", len(p))
	}
	n := d.nonce()
	pt, err := d.aead.Open(nil, n[:], p, d.aad(f.Header()))
	if err != nil {
		return nil, fmt.Errorf("frame %d does not open under the documented nonce/AAD rule: %w", d.Counter, err)
	}
	d.Nonces[n]++
	reuse := d.Nonces[n] > 1
	d.Counter++
	if reuse {
		return pt, ErrNonceReuse
	}
	return pt, nil
}

// Seal builds the wire frame for plaintext under the documented format. iv is
// used (and transmitted) only when this is the first frame of the direction.
func (d *GCMDir) Seal(end byte, plain []byte, iv [16]byte) []byte {
	first := d.Counter == 0
	if first {
		d.BaseIV = iv
		d.HaveIV = true
	}
	n := len(plain) + 16
	if first {
		n += 16
	}
	hdr := make([]byte, 5)
	hdr[0] = end
	binary.BigEndian.PutUint32(hdr[1:], uint32(n))
	nn := d.nonce()
	ct := d.aead.Seal(nil, nn[:], plain, d.aad(hdr))
	d.Counter++
	out := append([]byte(nil), hdr...)
	if first {
		out = append(out, iv[:]...)
	}
	return append(out, ct...)
}
