package refcodec

import (
	"crypto/hmac"
	"crypto/sha1"
	"crypto/sha256"
	"io"

	"golang.org/x/crypto/hkdf"
)

// akep2SeedKA is HTCondor's fixed 256-byte salt prefix for deriving the AKEP2 MAC
// key K from a token signature (condor_auth_passwd.cpp); a protocol constant.
var akep2SeedKA = [256]byte{
	62, 74, 80, 32, 71, 213, 244, 229, 220, 124, 105, 187, 82, 16, 203, 182, 22, 122, 221, 128, 132, 247, 221, 158, 243, 173, 44, 202, 113, 210, 131, 221, 17, 74, 79, 187, 123, 30, 233, 10, 223, 168, 98, 196, 67, 4, 222, 84, 115, 163, 23, 47, 115, 92, 44, 187, 110, 119, 91, 93, 64, 211, 159, 172, 232, 115, 24, 37, 35, 249, 37, 43, 98, 59, 224, 212, 177, 103, 163, 168, 4, 12, 172, 254, 233, 238, 61, 160, 44, 10, 187, 244, 217, 216, 177, 31, 137, 0, 76, 148, 57, 35, 206, 93, 149, 8, 187, 63, 4, 188, 102, 163, 250, 32, 161, 58, 65, 108, 94, 111, 78, 13, 49, 135, 212, 95, 199, 131, 53, 197, 228, 133, 219, 44, 90, 55, 23, 151, 12, 194, 110, 123, 107, 157, 25, 101, 180, 122, 103, 223, 119, 163, 31, 34, 240, 138, 108, 11, 165, 112, 151, 162, 26, 156, 167, 198, 4, 36, 247, 39, 57, 171, 92, 185, 21, 164, 24, 91, 209, 9, 130, 142, 53, 228, 33, 8, 171, 133, 28, 8, 163, 223, 253, 224, 227, 176, 111, 61, 57, 56, 205, 173, 109, 246, 239, 154, 111, 109, 194, 203, 116, 240, 34, 133, 18, 235, 122, 61, 104, 35, 1, 6, 132, 176, 21, 193, 42, 195, 1, 76, 79, 159, 147, 142, 56, 77, 173, 30, 59, 215, 69, 255, 140, 20, 31, 215, 11, 70, 91, 168, 175, 93, 27, 152, 180, 177,
}

// AKEP2MacKey derives K = HKDF-SHA256(signature, salt = seedKA || token, info "master ka").
func AKEP2MacKey(signature []byte, wireToken string) []byte {
	salt := append(append([]byte(nil), akep2SeedKA[:]...), []byte(wireToken)...)
	k := make([]byte, 32)
	if _, err := io.ReadFull(hkdf.New(sha256.New, signature, salt, []byte("master ka")), k); err != nil {
		panic(err)
	}
	return k
}

// AKEP2ClientMAC is the client's final proof: HMAC-SHA1(K, clientID || 0x00 || RB).
func AKEP2ClientMAC(k []byte, clientID string, rb []byte) []byte {
	h := hmac.New(sha1.New, k)
	h.Write([]byte(clientID))
	h.Write([]byte{0})
	h.Write(rb)
	return h.Sum(nil)
}
