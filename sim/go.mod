module cedarsim

go 1.26

toolchain go1.26.8

require (
	github.com/anishathalye/porcupine v1.3.0
	github.com/bbockelm/cedar v0.0.0
)

require github.com/PelicanPlatform/classad v0.4.0 // indirect

replace github.com/bbockelm/cedar => /repo
