# Per-property configuration of the vcheck runner and source of MANIFEST.json
# (tools/gen_manifest.py).

_REAL_STREAM = ["stream.Stream (framing, AES-GCM, digests)", "message.Message (typed layer)", "Go crypto/aes, crypto/cipher"]
_SIM = ["TCP (simnet: seeded segmentation, latency, short reads, send window)", "clock (testing/synctest bubble)",
        "entropy (testing/cryptotest seeded ChaCha8)", "goroutine scheduling at I/O primitives (kernel.Sim)"]
_SAMPLING = "sampling: a clean batch is evidence about the schedules, faults and histories drawn, not proof"
_TECH = "deterministic simulation with fault injection"

HOOK_COMMITS = ["9a83a6c", "8078797", "77dc71d", "1287812"]

NOT_APPLICABLE = {
    "C08": "pure function of the ad text (differential decode test); no schedule, clock, peer or fault to simulate",
    "C09": "pure function of (ad, options, static stream state); an information-flow enumeration over inputs and configurations, nothing to schedule or fault",
    "C14": "byte-layout conformance of a codec and sender-chosen frame cuts; inputs only, no nondeterminism or fault the outcome depends on",
}

CHECKS = {
    "C01": {
        "level": "exploration",
        "technique": _TECH + ": seeded send/receive API histories over two real streams on a simulated connection, reference list-of-messages model",
        "level_text": "Seeded exploration: every run drives two real cedar streams (plain or AES-GCM) through generated histories of every sender API x write composition x receiver API in both directions at once over a simulated TCP with drawn segmentation, latency, short reads and send window; the oracle is the list of messages whose send calls all returned nil. The band of sizes around the 1 MiB frame limit is swept exhaustively, and so is every composition of every short message (0-6 bytes; 0-5 in quick), alone and with one empty write at every position, x the three multi-write sender APIs x the five receive APIs x both modes, as first and as later message. Right level because the property quantifies over histories and sizes, which can only be sampled, while the known failure band is finite and is enumerated.",
        "level_note": "Trusts Go's AES-GCM, the simulator's TCP semantics (in-order, reliable, arbitrary segmentation) and that keys installed by SetSymmetricKey behave like negotiated ones. Typed values are compared by value (their byte layout is C14's subject).",
        "budget": {"quick": 25, "thorough": 900},
        "rule": "a case is one simulated run: two real streams over a simulated connection, 1-6 generated messages per direction "
                "(sizes concentrated on 0/4 KiB/16 KiB/1 MiB thresholds), sender API and write composition and receiver API drawn per message, "
                "both crypto modes, transport nondeterminism drawn per run; plus the enumerated sweep of every size in [1MiB-40,1MiB+2] x mode x sender API "
                "x first/later frame. Distinct = distinct event-log hash; non-trivial = the scheduler had more than one enabled goroutine at least once.",
        "real": _REAL_STREAM,
        "stub": _SIM,
        "assumptions": ["keys are installed with SetSymmetricKey directly (handshake is other properties' business)", _SAMPLING],
    },
}

CHECKS["C12"] = {
    "level": "exploration",
    "technique": _TECH + ": independent AES-GCM frame codec as wiretap and as sender against real streams; counters near 2^32 via imported state",
    "level_text": "Seeded exploration with an independent oracle: generated send histories (cleartext prefixes of every shape including none, empty/multi-frame/typed messages, both directions interleaved by the scheduler, secrets on a keyed non-encrypting stream) run on two real streams; refcodec - written from the property statement, sharing no code with cedar - opens every emitted frame under the documented nonce/AAD/IV rule, records the nonce set, compares base IVs, and in a second scenario builds the frames itself and feeds them to the real receiver. Counters are started at 2^32-1-k (k=0..6) through a patched exported session blob and the stream must refuse to send rather than wrap. Symmetric mistakes that cedar-to-cedar tests cannot see fail here. A fourth scenario installs a key again on a live stream pair (the same key, or another) between bursts of protected frames with known plaintexts and checks, independently of the frame format, that no two frames under one key share a key stream (c1 xor c2 == p1 xor p2 over >= 32 bytes would show a repeated nonce).",
    "level_note": "Trusts Go's crypto/aes+cipher (used by both cedar and the reference) and the reference's reading of the format in the property statement. The blob patch locates the counters relative to the key bytes and is validated (both read back as 1) before use.",
    "budget": {"quick": 25, "thorough": 900},
    "rule": "a case is one generated send history on two real keyed streams (or reference-sender vs real receiver, or a counter-limit run); every wire frame is opened by the reference codec. "
            "Distinct = distinct event-log hash; non-trivial = the scheduler had a choice (both directions in flight).",
    "real": _REAL_STREAM + ["stream.ExportCryptoState/NewStreamWithCryptoState (wrap scenario)"],
    "stub": _SIM + ["reference AES-GCM frame codec (refcodec) as wiretap and as scripted sender"],
    "assumptions": ["keys installed with SetSymmetricKey after a cleartext prefix exchange", _SAMPLING],
}

_REAL_SEC = ["security.Authenticator (negotiation, CLAIMTOBE, TOKEN/IDTOKENS, ECDH, key derivation, session cache)", "stream.Stream", "message.Message + ClassAd codec", "Go crypto/ecdh, crypto/aes, x/crypto/hkdf"]

CHECKS["C03"] = {
    "level": "fault_enumeration",
    "technique": _TECH + ": one real endpoint per run against a scripted deviating peer; deviation catalogue x local policy matrix enumerated; puppet's wire record and wiretap as ground truth",
    "level_text": "Fault enumeration over peers: the real ClientHandshake (against a scripted server) and the real ServerHandshake (against a scripted client) are run for all 4x4 local authentication/encryption levels (plus integrity REQUIRED), three method lists, and every deviation of a catalogue (honest; answers Authentication/Encryption NO or YES against the honest decision; omits/truncates/randomises/garbles the ECDH key; no common cipher; selects a method never offered, several bits, zero; rejects the claim; post-auth DENIED / in clear / under another key; negotiation DENIED; client-side: levels NEVER/OPTIONAL, bitmasks naming unlisted methods), each under both honest base decisions of the peer, with transport nondeterminism drawn per run. Whenever the real endpoint returns success the oracle demands: own authentication REQUIRED => the scripted peer saw an authentication exchange of a method the endpoint itself listed run to completion; own encryption/integrity REQUIRED => the stream is encrypting and the canary message sent next does not appear in clear on the wire; reported Encryption == stream state; reported Authentication/method == what the peer saw run. A second enumerated scenario covers resumed handshakes: a session is first established between two real endpoints under a permissive policy (authenticated or not, with a key or without), then resumed against the endpoint under test with every own policy of the matrix - server role facing the real client and a scripted requester that names the session id regardless, reaching the session directly or through the fallback to the process-wide cache; client role resuming from its own cache: success with authentication REQUIRED demands that the resumed session was an authenticated one, and the encryption rules are as above.",
    "level_note": "The scripted peer speaks CLAIMTOBE only (so 'method that ran' is observable for that method; a real endpoint that starts another selected method is observed to do so and the run ends). Failure returns are always acceptable here (C10 owns 'honest pairs succeed'). Resumed handshakes are covered by C06/C07.",
    "budget": {"quick": 20, "thorough": 600},
    "rule": "a case is one (role, own policy, method list, peer deviation, peer base decision) cell run as a real handshake against the scripted peer; distinct = distinct event-log hash; non-trivial = scheduler had a choice.",
    "real": _REAL_SEC,
    "stub": _SIM + ["scripted deviating peer (puppet) using cedar's message/stream framing only"],
    "assumptions": ["puppet and oracle are our reading of the protocol", _SAMPLING],
}

CHECKS["C04"] = {
    "level": "fault_enumeration",
    "technique": _TECH + ": modifying relay between two real endpoints; every cleartext handshake byte and frame perturbed for four handshake shapes",
    "level_text": "Fault enumeration: for four handshake shapes (no authentication + encryption, CLAIMTOBE, TOKEN, SSL with its tunnelled TLS flights and session-key message, resumed session with reply, and the authenticated / unauthenticated shapes with encryption merely OPTIONAL on both ends) a fault-free baseline inside the simulator measures the cleartext frames of each direction; then every byte offset of every cleartext frame (header and payload, both directions) is XORed with 0x01, XORed with 0x80 and zeroed (every 3rd in quick, all in thorough), every frame is removed, an empty partial and an empty complete frame are inserted before and after every frame, every frame is split in two and adjacent partial frames are merged - by an on-path filter inside the simulated connection between a real client and a real server. Oracle: if the relay's output differed from its input, it must not happen that the client's handshake succeeds with encryption on (it would have authenticated the first protected frame) or that the server accepts application data on an encrypted stream. Failures, hangs and outcomes negotiated down to plaintext are acceptable.",
    "level_note": "Shapes are limited to the methods that run in the simulator (no SSL/FS/KERBEROS/SCITOKENS). Whether a downgrade to plaintext is acceptable is C03/C10's subject, not this check's.",
    "budget": {"quick": 30, "thorough": 900},
    "rule": "a case is one handshake shape with one modification of one cleartext frame applied in transit; distinct = distinct event-log hash; non-trivial = the fault fired.",
    "real": _REAL_SEC,
    "stub": _SIM + ["on-path modifying relay (simnet.FrameFilter)"],
    "assumptions": ["frame layout of the faulted run equals the baseline's (fixed-length ids via the verif hook)", _SAMPLING],
}

CHECKS["C19"] = {
    "level": "fault_enumeration",
    "technique": _TECH + ": the k-th read or write of the endpoint under test never completes, for every k, while its context is cancelled or expires before, during and after; virtual clock",
    "level_text": "Fault enumeration over I/O steps: a fault-free baseline inside the simulator counts the reads and writes (N, typically 10-60) the endpoint under test performs in a plain message exchange (sender and receiver, stream and Message APIs) and in every handshake shape (no authentication + encryption, CLAIMTOBE, TOKEN, FS on the real /tmp, SSL with a generated CA and server certificate - tunnelled TLS flights, completion confirmations, session-key message -, resumed, failed negotiation) in both roles, plus the connection-owning entry points client.ConnectAndAuthenticateWithConfig (through the dial hook) and server.ServeConn; then for every k <= N+1 the k-th read or write is stalled for ever, combined with: an explicit cancel 1 s (virtual) after the stall began, a 30 s deadline context, a cancel at a drawn early instant, a context cancelled before the call, and Background. Oracle: once the context is done the call returns within 1 s of virtual time (a task still parked at quiescence is the violation), with a non-nil error that for plain stream operations is the context's own error; the interrupted connection was closed by the endpoint; the owning entry points close their connection on any error return; Background / never-cancelled / cancelled-after-completion runs succeed.",
    "level_note": "The peer is an honest real cedar endpoint on a Background context. KERBEROS and SCITOKENS handshakes are not run (they need external services). The FS shape uses the real /tmp; the directory an abandoned exchange leaves is removed by the harness (its name is read from the tapped cleartext).",
    "budget": {"quick": 25, "thorough": 600},
    "rule": "a case is one (shape, role, stalled step k, cancellation mode) run; distinct = distinct event-log hash (includes where the stall fired and when the connection was closed); non-trivial = a stall fired or the scheduler had a choice.",
    "real": _REAL_SEC + ["client.ConnectAndAuthenticateWithConfig", "server.ServeConn"],
    "stub": _SIM + ["stall fault on the k-th I/O primitive of one endpoint"],
    "assumptions": ["one clock for all parties", _SAMPLING],
}

CHECKS["C11"] = {
    "level": "fault_enumeration",
    "technique": _TECH + ": real TOKEN client and server halves with in-memory keys; token mutated bit by bit and aged with the virtual clock moved mid-exchange; field-aware relay over the three AKEP2 messages; independent token/signature/time reference",
    "level_text": "Fault enumeration, one deviation at a time: (a) the client's token is mutated - every bit of header, payload and signature (thorough; every 8th in quick), signed by another key, naming an unknown key id or none, another subject, too old already, expiring or becoming too old while the server is held for 5 or 30 virtual seconds before it reads the first AKEP2 message; (b) the server holds a different key under the same id, no key, an empty key; (c) a field-aware relay between real client and real server (plaintext session, so that the encrypted-session transcript binding cannot mask a missing check) makes each element of the three AKEP2 messages wrong, truncated and empty (status codes 1/-1/7, the claimed identity replaced, trailing bytes appended); (d) security.VerifyIDToken is run on the same token variants at 7 clock positions around exp and max-age. Oracle: an independent reference (HKDF+HMAC signature, time rule, evaluated at the virtual instant the server validates) says whether the server MAY accept: server success requires a definitely valid token and the recorded user must be the user part of the token's subject; client success requires that the server really held the signature; for every altered proof, echo, nonce or status the receiver of that message must not succeed; VerifyIDToken (a single exact clock reading) must agree with the reference at every second including the boundaries: a token is expired from the second exp on.",
    "level_note": "At the exact boundaries (now == exp, age == max age) either answer is accepted (the statement does not fix >= vs >). Trailing bytes are counted, not judged. The wire token is header.payload only; 'bits of the signature' are bits of the client's configured token.",
    "budget": {"quick": 20, "thorough": 600},
    "rule": "a case is one deviation (token variant, server key variant, relay field mutation, or verifier input x clock) run as a real handshake or verifier call in the simulator; distinct = distinct event-log hash; non-trivial = a fault fired or the scheduler had a choice.",
    "real": _REAL_SEC + ["security.VerifyIDToken"],
    "stub": _SIM + ["field-aware relay (refcodec AKEP2 layouts)", "reference token signature/time rule (refcodec)", "in-memory credential reader"],
    "assumptions": ["AKEP2 message layouts as read from the protocol exchange", _SAMPLING],
}

CHECKS["C13"] = {
    "level": "exploration",
    "technique": _TECH + ": every wire-facing decoder as a task fed by a corrupting, truncating, bloating peer (plaintext and encrypted-by-a-key-holding-peer); panic / no-return / allocation / cap oracles; real-time watchdog for spins",
    "level_text": "Structured fault exploration over decoder inputs delivered through the simulated connection: for each entry point (typed Get* mix, bounded string, SkipString, GetClassAd, GetClassAdWithMaxSize, GetClassAdRaw, SkipClassAdRaw, CCB control and reverse-connect ads, stream-level ReceiveCompleteMessage / StartMessageRead, NewStreamWithCryptoState blobs, and the real ServerHandshake / ClientHandshake fed with a recorded CLAIMTOBE, TOKEN or SSL transcript of the other side - for SSL with a generated CA and certificate, up to 12 messages: tunnelled TLS flights with their status and length fields, completion confirmations, session key - by a peer that lingers 5 virtual seconds before hanging up) a valid message is rendered, then every 8-byte window is overwritten with 10 extreme values (negative, 0, 1, 2^31-1, 2^31, 2^40, 2^62, -2^63, ...), every byte flipped, the message cut at every offset, terminators deleted, the in-band secret marker inserted, values 10-100x the cap inserted for capped readers (bare, after the in-band secret marker, as many small expressions, and on encrypted streams as a declared-and-delivered over-cap length-prefixed string), genuine exported state blobs cut at every length with capacity == length, hostile framing injected (hundreds of thousands of empty partial frames, huge lengths, bad end flags) - in plaintext and, for the typed layer, encrypted by a peer that holds the key. Oracle per case: the decoder task does not panic, has returned once the peer closed (a task that never reaches a simulator primitive is caught by a 20 s real-time watchdog and reported as no-progress), heap growth during the call <= 2.25 MiB + 64 x bytes delivered + 2 KiB per simulator step and stack growth <= 1 MiB + 8 x bytes delivered, capped readers fail and consume at most cap + two frames; a worker killed by the address-space limit is attributed to the case that was running (process-crash).",
    "level_note": "The text parsers named by the property (claim ids, session info, inherit strings, sinful/address/version) are pure functions of a string; they are fed mutated strings by a plain loop inside the same binary - a non-simulation add-on counted in the probes as 'text-parsed'; the claim and its level rest on the wire-facing part. The SCITOKENS token reader (behind a completed TLS handshake on the server side, with SCITOKENS configured) and the KERBEROS readers are not reached.",
    "budget": {"quick": 30, "thorough": 900},
    "crash_is_violation": True,
    "mem_gb": 4,
    "rule": "a case is one (entry point, crypto mode, mutation, offset, value) delivered to the real decoder over a simulated connection with drawn short reads; distinct = distinct event-log hash; non-trivial = scheduler had a choice.",
    "real": ["message.Message decoders", "message ClassAd readers", "stream.Stream receive paths and NewStreamWithCryptoState", "security.Authenticator handshake entry points (CLAIMTOBE, TOKEN, SSL tunnel, exchangeKey)", "ccb.ReadControlAd / ReadReverseConnectAd", "text parsers (add-on)"],
    "stub": _SIM + ["corrupting peer (mutated recordings)"],
    "assumptions": ["allocation is attributed by runtime/metrics deltas around the serialised decoder call", _SAMPLING],
}

CHECKS["C20"] = {
    "level": "exploration",
    "technique": _TECH + ": real ccb.Dial on the simulated network against scripted brokers and legitimate / rogue reverse connectors; arrival orders and reply-vs-connect races are seeded scheduler decisions; identity of every connection tracked",
    "level_text": "Seeded exploration of schedules: the real ccb.Dial (standard reverse-connect mode and proxied/streaming mode; 1-3 brokers in shuffled order with the Happy-Eyeballs stagger timer on the virtual clock; real client handshakes with each broker through the dial hook; the ephemeral reverse listener through the listen hook) runs up to 3 times per run against scripted brokers (dead, or answering success / failure / nothing, after 0-3000 virtual ms, and having the target connect back legitimately, not at all, with a wrong id, with the id of an earlier request of the run, or with the id of another attempt of the same dial) and up to 3 rogue connectors per dial aimed at the ephemeral listener (wrong id, empty id, stale id, garbage bytes, immediate close, silent). Which of reply, legitimate connection and rogues arrives first is decided by the seeded scheduler. Every simulated connection records who opened it and what it presented. Oracle: a returned connection's far end presented the connect id generated for that very attempt (in standard mode: on that attempt's own listener; in proxied mode: the broker connection after the matching hello); every connection that presented anything else - a wrong, empty, stale, sibling-request, prefix, extended or re-cased id, a hello without ClaimId or with a non-string one, garbage, nothing - was closed by the dialer (in proxied mode: the broker connection whose replayed hello does not match); a single broker's failure reply ends the dial with an error carrying its reason. Whether a losing legitimate connection is closed is counted, not judged.",
    "level_note": "Brokers and connectors are scripted (real cedar server handshake for CCB_REQUEST, ccb.ReadControlAd/WriteControlAd/WriteReverseConnect for the messages). Nested multi-hop contacts and shared-port endpoints are not exercised.",
    "budget": {"quick": 25, "thorough": 900},
    "rule": "a case is one generated broker/connector configuration with 1-3 dials; distinct = distinct event-log hash (which includes the arrival order of every accept, reply and connection); non-trivial = the scheduler had a choice.",
    "real": ["ccb.Dial (dialStandard, dialProxy, acceptReversed, proxyRequestOnStream, broker race)", "security client handshake with the broker", "stream/message framing"],
    "stub": _SIM + ["scripted brokers and reverse connectors", "TCP dial and listen of the requester (verif hooks)"],
    "replay_retries": 6,
    "assumptions": ["math/rand broker shuffle seeded per run",
                    "residual nondeterminism: ccb.Dial selects over several channels; when two are ready at the same virtual instant Go picks one with runtime randomness the simulator cannot seed (about 3% of runs differ between two executions of the same seed: measured by vcheck selftest); a violation's replay is therefore attempted up to 7 times",
                    _SAMPLING],
}

CHECKS["C18"] = {
    "level": "fault_enumeration",
    "technique": _TECH + ": real FS client vs scripted server sending a path grammar, with a connection reset or a stall+cancellation at every I/O step of the exchange; real FS server vs scripted client objects; before/after snapshots of token-tagged filesystem entries",
    "level_text": "Fault enumeration on the real filesystem: the real FS client half (reached through a real client handshake negotiated to FS over the simulated network) is given, by a scripted server, every path of a grammar - the two recognised shapes (plain and address-qualified for the endpoint really connected to), address-qualified names for another IP / port / IPv6 / hostname, relative, other directories, '..' and '.' components, doubled and trailing slashes, nesting under an existing subdirectory, a symlinked parent, near-miss leaf names, control and non-ASCII bytes, over-long fields - plus random one-character mutations of the accepted paths (judged by an independent statement of the acceptance rule), and, for six representative paths, a connection reset and a stall followed by cancellation at each of the first 10 I/O steps of the client's FS exchange. Every object a run could create carries a per-run token and hostile targets point into a per-run sandbox tree under /var/tmp. Oracle: the snapshot (names, types, modes) of token-tagged /tmp entries and of the sandbox tree is identical before the exchange and after the client returned, however it returned; for an unacceptable path nothing exists at it when the server looks and the client sent a failure result; for an acceptable one what exists during the exchange is a 0700 directory. The real FS server half is given, by a scripted client, a proper 0700 directory, nothing, a regular file, a symlink to a directory, 0755 and 0777 directories, a directory with a subdirectory, and a directory swapped for a symlink: it must succeed only for the first, record the directory owner as the identity, and remove what it judged without touching a symlink's target.",
    "level_note": "Needs a writable /tmp and /var/tmp; leaves nothing behind (the check verifies that itself and sweeps token-tagged entries). FS 'remote' mode is unreachable through the handshake and not exercised.",
    "budget": {"quick": 20, "thorough": 600},
    "rule": "a case is one path (or object, or path x fault x step) run as a real FS exchange inside a real handshake; distinct = distinct event-log hash; non-trivial = a fault fired or the scheduler had a choice.",
    "real": _REAL_SEC + ["security FS authentication client and server halves", "the real filesystem (/tmp, /var/tmp)"],
    "stub": _SIM + ["scripted FS server / client (puppet)"],
    "assumptions": ["no other process creates token-tagged names", _SAMPLING],
}

CHECKS["C16"] = {
    "level": "exploration",
    "technique": _TECH + ": minter node and importer node with separate caches on the simulated network; generated mint options; real handshakes naming the session in both dial directions; virtual-time lifetime",
    "level_text": "Seeded exploration over minting options and both connection directions: node A mints a claim (sinfuls with and without embedded '#', brackets, IPv6 literals and parameters; encryption/integrity toggles; single and multiple ciphers; command lists; lifetimes; long and short versions; peer address set or not), node B imports the claim id into its own cache; the two cache entries must agree on id, key bytes, policy attributes and expiry, and the policy must say what the options asked for; then real client and server handshakes naming the session run B->A and A->B over the simulated network and must resume with exactly request+reply in the clear (no authentication exchange on the wire), exchange a message each way that never appears in clear, and report an authenticated session; an importer whose claim id has one secret character changed gets no application byte accepted by the minter and cannot read its reply; with a lifetime L both directions still work 3 s before L and both refuse 2 s after it (virtual clock), and both caches have dropped the entry. In half the runs both holders of the claim id also derive the file-transfer session (ImportFileTransferSession): same 'filetrans.' id and key on both, encryption and integrity on, resumes both ways and carries traffic, and a holder of a different secret gets nothing accepted. Both directions must also resume without naming the session, through the (tag, peer address, command) mapping that minting and importing install (tag drawn empty or not). The corrupted secret differs in one character: another digit, the other case of a hex letter, or a trailing blank. The public form of the claim id must not contain the secret.",
    "level_note": "The render/parse sub-claims are input-only and are asserted as by-products; the claim rests on the two-node, timed behaviour. ImportFileTransferSession is not exercised.",
    "budget": {"quick": 20, "thorough": 600},
    "rule": "a case is one generated option set run through mint, import, 2-7 simulated connections and up to two clock jumps; distinct = distinct event-log hash; non-trivial = scheduler had a choice.",
    "real": _REAL_SEC + ["security.MintClaimSession / ImportClaimSession / ParseClaimIDStrict"],
    "stub": _SIM,
    "assumptions": ["one clock for both nodes", _SAMPLING],
}

CHECKS["C05"] = {
    "level": "exploration",
    "technique": _TECH + ": real server.Server with a generated per-command policy zoo and a mutable authorizer; real clients drive command histories; handler-invocation monitor against harness-owned ground truth",
    "level_text": "Seeded exploration of histories plus an enumerated cube: a real server.Server (Serve on a simulated listener, ServeConn, dispatch loop) is given 5 authenticated commands whose authentication / encryption / integrity levels and permission lists are drawn per run (SecurityConfigForCommand), one raw command, and an authorizer table (or none) that the scenario re-draws between connections and while a connection is kept alive. Real clients (drawn own levels; with or without a common cipher, i.e. keyed or keyless sessions) run up to 4 connections of first command + up to 3 kept-alive follow-on command integers, reconnect and resume cached sessions under other commands, send authenticated commands on the raw path, the raw and unknown commands through the handshake, and unknown follow-ons. Every handler is wrapped by a monitor that at invocation time checks: authenticated handlers only via the handshake path and raw ones only raw; policy(cmd).authentication REQUIRED => the session was really authenticated (recorded when the harness saw it established); encryption or integrity REQUIRED => the stream is really encrypting a keyed session; authorizer set => it currently accepts the session's identity at one of the command's levels. Requests that must be refused run no handler and the client sees the connection closed. The cube (first-command policy x follow-on policy x client kind) is swept exhaustively in thorough, one in four cells in quick.",
    "level_note": "Ground truth for 'really authenticated/keyed' is what the real client reported for the session when it was established (the client's flags are themselves checked against the wire by C03). All sessions live in cedar's process-global server cache.",
    "budget": {"quick": 25, "thorough": 900},
    "rule": "a case is one generated server zoo plus client history (or one cube cell); distinct = distinct event-log hash; non-trivial = scheduler had a choice or a policy change fired.",
    "real": _REAL_SEC + ["server.Server (Serve, ServeConn, sessionSatisfies, postAuthPolicy)"],
    "stub": _SIM,
    "assumptions": [_SAMPLING],
}

CHECKS["C06"] = {
    "level": "exploration",
    "technique": _TECH + ": scripted resumption requesters and a byte-for-byte replayer against the real server side across generated session lifetimes in virtual time; reference key/identity/expiry model and reference codec on the wire",
    "level_text": "Seeded exploration of histories: sessions with and without a key, authenticated or not, are established by real handshakes; the history sleeps across the lease (200 s) and duration (600 s) boundaries in virtual time, invalidates sessions and sweeps expired ones; at each point drawn requests from the catalogue (right id with the right key / a wrong key / no key, unknown id, ids differing by one character, with and without a reply requested, from the original or another address) are made by a scripted requester against the real ServerHandshake, which then sends a canary and reads one application message. Oracle: unknown, definitely expired, invalidated and keyless sessions are never resumed and a requester that asked is told SID_NOT_FOUND; after an accepted resumption the server's bytes open only under the session key (reference codec; canary never in clear), a requester without the right key gets no application byte accepted and cannot read the reply; with the right key data flows and the server reports the identity, authentication status and key of the original handshake. An enumerated scenario replays either direction of a recorded legitimate resumed connection (whole or cut at each frame) by a party without the key.",
    "level_note": "Expiry is judged with sound windows (definitely dead after max(create+duration, lastUse+lease); definitely alive before the min). All sessions live in cedar's process-global server cache.",
    "budget": {"quick": 25, "thorough": 900},
    "rule": "a case is one generated session history with 3 catalogue requests per probe point (or one replay); distinct = distinct event-log hash; non-trivial = scheduler had a choice or a replay fault fired.",
    "real": _REAL_SEC,
    "stub": _SIM + ["scripted resumption requester / replayer (framing via cedar message+stream, keys via SetSymmetricKey)", "reference AES-GCM codec on the server's bytes"],
    "assumptions": ["one clock for all parties", _SAMPLING],
}

CHECKS["C07"] = {
    "level": "exploration",
    "technique": _TECH + ": generated histories of real client handshakes over (tag, address, command) with server restarts, connection resets, virtual-time expiry and invalidation; reference reuse map",
    "level_text": "Seeded exploration of histories: 5-12 steps of real client handshakes (bare Authenticator and client.ConnectAndAuthenticateWithConfig through the dial hook) over 3 tags x 2 server addresses x 3 commands against real servers that declare different valid-command sets, interleaved with server restarts (server cache cleared), a connection reset at a drawn I/O step of the next client connection, sleeps of 50-700 virtual seconds across the 600 s duration and 200 s lease, InvalidateExpired and explicit Invalidate. A reference map records under which tag, address and valid commands each session was established and whether it has been dropped; a handshake that resumes outside the map (other tag or none, other server, undeclared command, dropped, definitely expired, unknown) is a violation; after every failed resumption, invalidation or expiry, Lookup, LookupNonExpired and LookupByCommand over the whole key space must no longer reach the session. A fault-free scenario asserts that the same triple does resume and another tag does not.",
    "level_note": "All simulated servers share cedar's process-global server-side cache, so a restart forgets sessions for all of them at once. Expiry uses sound windows (definitely dead after max(create+duration, lastUse+lease)).",
    "budget": {"quick": 25, "thorough": 900},
    "rule": "a case is one generated history; distinct = distinct event-log hash; non-trivial = a fault fired (reset, restart) or the scheduler had a choice.",
    "real": _REAL_SEC + ["client.ConnectAndAuthenticateWithConfig (dial hook)", "security.SessionCache"],
    "stub": _SIM,
    "assumptions": ["one clock for all parties", _SAMPLING],
}

CHECKS["C10"] = {
    "level": "exploration",
    "technique": _TECH + ": two real endpoints over the simulated network for every cell of the policy matrix; independently written decision table as oracle",
    "level_text": "Exhaustive over configurations, sampled over transport schedules: every cell of the 4^4 (client/server authentication x encryption level) matrix x 13 method-list shapes (SSL alone and after an unusable method, with a generated CA and server certificate; equal, overlapping in different orders, disjoint, empty on either side, unimplemented method first, names cedar does not know at all ahead of or between the usable ones on either side, token listed but not held, token held) x cipher lists (common / none) x command present or auth-only is run as a real client handshake against a real server handshake inside the simulator with drawn segmentation/latency/short reads/window; the oracle is a decision table written from the property statement: which cells must fail (with an explicit denial, not a bare close), which must authenticate, which must encrypt, and that both ends report the same authentication and encryption outcome, session id and key and can exchange a message each way at once. Cells the statement leaves open pass with either outcome as long as the ends agree.",
    "level_note": "CLAIMTOBE, TOKEN and SSL are used as methods (FS touches the real /tmp and is exercised by C18/C19; SCITOKENS/KERBEROS need external services). For SSL without a client certificate the server has no client identity to record, so only the authentication flag is demanded there. Cells whose classification depends on reading 'supported' as 'listed' vs 'usable' are agreement-only.",
    "budget": {"quick": 20, "thorough": 600},
    "rule": "a case is one cell of the configuration matrix run as two real handshakes plus a ping/pong exchange under a drawn transport configuration; distinct = distinct event-log hash; non-trivial = the scheduler had a choice.",
    "real": _REAL_SEC,
    "stub": _SIM + ["credential files (in-memory CredentialReader)", "pid/hostname in session ids (verif hook)"],
    "assumptions": ["one transport schedule per cell per seed (thorough iterates seeds)", _SAMPLING],
}

CHECKS["C15"] = {
    "level": "exploration",
    "technique": _TECH + ": hand-off (export, discard stream, import around a new conn on the same pipes) as a generated restart operation inside bidirectional traffic; blob truncations/corruptions enumerated",
    "level_text": "Seeded exploration of traffic histories in which the hand-off is the crash/restart fault: at generated message boundaries one or both sides export the crypto state, the Stream object is discarded, and a new Stream is built from the blob around a fresh conn object attached to the same simulated pipes while the unaware peer keeps sending (single messages through three sender and two receiver APIs, concurrent bursts, chains of hand-offs). Oracles: reference list model in both directions, no receive/send error, the C12 reference codec opens every wire frame with one continuous counter sequence per direction (so a nonce reuse or counter slip across a hand-off is seen), export must be refused when unkeyed, before a protected frame went each way, with buffered unsent bytes, and inside a partially consumed message. Every truncation of a valid blob and 3 corruptions of every byte are enumerated: truncated/mis-tagged/wrong-version blobs must be rejected, other corruptions may fail but never deliver wrong data.",
    "level_note": "Message-layer (message.Message) buffers are outside Stream's knowledge and outside the statement. Refusal at points where cedar is merely conservative (after EndMessage without StartMessage) is not judged. Tag/version are taken to be the first 6 bytes of the blob as documented at ExportCryptoState.",
    "budget": {"quick": 25, "thorough": 900},
    "rule": "a case is one generated traffic history with 0-6 hand-offs and unclean-export attempts (or one blob truncation/corruption); distinct = distinct event-log hash; non-trivial = a hand-off or blob fault fired or the scheduler had a choice.",
    "real": _REAL_STREAM + ["stream.ExportCryptoState / NewStreamWithCryptoState"],
    "stub": _SIM + ["fd passing (simnet Endpoint.Rewrap: new conn object on the same pipes)", "reference AES-GCM codec as wire monitor"],
    "assumptions": ["keys installed with SetSymmetricKey after a cleartext preamble", _SAMPLING],
}

CHECKS["C02"] = {
    "level": "fault_enumeration",
    "technique": _TECH + ": frame-aware on-path adversary between two keyed real streams; single faults enumerated, multi-fault combinations seeded",
    "level_text": "Fault enumeration: for five transcript families of protected frames (single- and multi-frame, empty messages and empty partial frames, with reverse-direction traffic) every single fault of the catalogue is applied by an on-path filter inside the simulated connection - each bit of every header/IV/ciphertext/tag (thorough; every 7th in quick), each frame dropped, duplicated, swapped, replayed after each later frame, cut at every length then closed, forged frames of 7 length classes x 5 end-flag values inserted at every position, a frame of the other direction inserted - against four receive APIs; seeded multi-fault combinations on drawn transcripts on top. The oracle is position based and independent of the fault kind: what the application received must be an exact prefix of what was sent and nothing at or after the message containing the first changed wire byte may be delivered.",
    "level_note": "Trusts Go's AES-GCM and the simulator's byte-stream semantics. Keys installed directly with SetSymmetricKey (both handshake digests zero). Enumeration is exhaustive over the stated catalogue for the stated transcript families only.",
    "budget": {"quick": 30, "thorough": 1200},
    "rule": "a case is one simulated run of a transcript family with one enumerated fault (or 2-3 drawn faults) applied by the on-path frame filter and one receive API; "
            "distinct = distinct event-log hash (includes which fault fired where); non-trivial = a fault fired or the scheduler had a choice.",
    "real": _REAL_STREAM,
    "stub": _SIM + ["on-path adversary (simnet.FrameFilter, scripted)"],
    "assumptions": ["keys installed with SetSymmetricKey", _SAMPLING],
}

CHECKS["C17"] = {
    "level": "exploration",
    "technique": _TECH + ": many tasks on one cache / one configuration / one server / one stream, PRNG-chosen interleavings at simulator I/O primitives and at scheduling points inserted (go/ast, scratch copy) at function entries and around every lock operation; race detector with the scheduler's hand-offs hidden from it; porcupine linearizability check of the cache history",
    "level_text": "Seeded interleaving exploration under the race detector. The working tree is copied to a scratch directory, a go/ast pass inserts simulator-controlled scheduling points (entry of every function of security, stream, server, client, ccb, message; before every Lock/RLock, after every Unlock/RUnlock; lock acquisition itself becomes a TryLock loop that parks on the simulator), and the binary is built with -race while the simulator, scenario and hook packages are compiled without instrumentation and bracket their hand-offs with RaceDisable: the detector therefore sees only the ordering cedar's own locks, atomics and channels provide, although the scheduler runs one task at a time, so one deterministic replayable run both explores a chosen interleaving and reports every pair of conflicting accesses cedar does not order. Four workloads: (1) 2-5 tasks x 3-7 random cache operations (store, three kinds of lookup, command mapping, invalidate, expiry sweep, dump, snapshot, size, clear, lease renewal, expiry getters) on 2-3 overlapping ids with virtual-time expiry, the recorded history (stamped with a global event counter) checked by porcupine against a sequential map-with-expiry model, plus sequential quiescence lookups; (2) 2-5 clients sharing ONE SecurityConfig and one cache connecting at once through client.ConnectAndAuthenticateWithConfig to one server.Server (ServeConn per connection, one config, one cache, in half the runs a SecurityConfigForCommand hook returning one shared object), fresh or resuming one shared session, with a maintenance task sweeping/dumping/renewing both caches: every connection must succeed, be encrypted and get its own echo; (3) after a handshake, one goroutine writes while another reads on each end of one stream (plain or AES-GCM, two sender APIs, 1 B - 20 KB); (4) a real ccb.Listener registered with a scripted broker that sends several requests at once, so that cedar's own request goroutines and heartbeat write to the one broker stream while its serve loop reads it: every request answered exactly once, everything parseable. Workers run with 1, 1, 2 and 4 processors in turn (goroutines cedar starts itself then really run in parallel with the task that started them; a violation is replayed with the count it was found with). Right level because the property quantifies over schedules, which can only be sampled; the race detector makes each sample decide all pairs of accesses it executed, not only the interleaving it ran.",
    "level_note": "Trusts the Go race detector (happens-before, bounded history window) and that compiling the simulator without instrumentation hides nothing of cedar's. Scheduling points never park while the running task holds a cedar lock, so interleavings are explored at the granularity of whole critical sections (sufficient for linearizability of correctly locked code; unlocked conflicting accesses are the detector's job). Map iteration order inside cedar (InvalidateExpired, DebugDump) is Go-runtime randomness the simulator does not own; the oracles are order-insensitive.",
    "budget": {"quick": 40, "thorough": 1200},
    "rule": "a case is one simulated run of one workload under one PRNG-chosen schedule and yield-site subset; distinct = distinct event-log hash (scheduled primitive keys incl. yield/lock-wait parks per task); non-trivial = the scheduler had a choice.",
    "real": ["security.SessionCache / SessionEntry", "security.Authenticator (client and server handshakes, session resumption)", "client.ConnectAndAuthenticateWithConfig", "server.Server.ServeConn", "stream.Stream", "message.Message", "ccb.Listener (registration, serve loop, heartbeat, request handlers)"],
    "stub": _SIM + ["scheduling points and TryLock loops inserted into a scratch copy of the sources (semantics-preserving; cedar's own suite passes on the rewritten copy)", "credential files (in-memory CredentialReader)", "pid/hostname in session ids (verif hook)", "CCB broker and requester (scripted tasks speaking the real control-ad protocol)"],
    "assumptions": ["fault-free network in the handshake workload (faults are other properties' subject)", _SAMPLING],
    "race": True,
    "replay_retries": 5,
    "gomaxprocs_by_shard": [1, 1, 2, 4],  # varied processor counts; a violation is replayed at the count it was found with
    "yield_build": ["security", "stream", "server", "client", "ccb", "message"],
    "mem_gb": 0,
}
